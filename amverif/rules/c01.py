"""C01 Box definitions and coordinate maps.

Decided statically (exact algebra on expressions extracted from Box.py / Plane.py / vect_angle.py):
 * CHAIN: set_abc -> set_lengths -> vects setter gives vectors with |a|,|b|,|c| and the three dot products fixed by
   the lattice parameters, in LAMMPS triangular form; set_hi_los gives lengths hi-lo and origin (lo,lo,lo).
 * GETTERS: a,b,c = row norms; lx..yz read the triangular entries; xlo..zhi = origin, origin+diagonal; angles are
   the angles between the right rows; volume = |det|; every parameter set read back and re-applied is the identity.
 * CACHE: the cell vectors have two writers (constructor, vects setter); every write is followed unconditionally
   by the reset of the reciprocal cache; reciprocal_vects is dual to vects; the near-zero clean-up is scale free.
 * CONVERT: relative->Cartesian is r.V+o, Cartesian->relative its exact inverse, for single points and stacks;
   neither conversion writes to its argument.
 * INSIDE: the six half-spaces are r_i >= 0 and r_i <= 1 (each once), <= when inclusive else <, combined by AND,
   for any leading shape; outside is the complement with the boundary rule flipped.
 * ARRAYLIKE: parameters documented as array-like are not used through ndarray-only attributes before conversion.
Declined: the rounding bound itself, conditioning of the inverse, points within rounding of a face.
"""
import ast
import itertools

import numpy as np
import sympy as sp

from ..core import norm, calls_in, kwarg, AnalysisError, walk_no_nested, is_setter
from ..symx import is_arr, SymEval, Path, SymObj, symarray, is_zero, equal, Opaque, WouldRaise, module_aliases, arr
from .. import effects

BOX = 'atomman/core/Box.py'
PLANE = 'atomman/region/Plane.py'
SHAPE = 'atomman/region/Shape.py'
VA = 'atomman/tools/vect_angle.py'


def _is_cleanup(s):
    """`x[np.isclose(<scale-free>, 0.0, ...)] = 0.0`: rounding clean-up, the identity in exact arithmetic"""
    return (isinstance(s, ast.Assign) and isinstance(s.targets[0], ast.Subscript) and isinstance(s.targets[0].slice, ast.Call)
            and norm(s.targets[0].slice.func) in ('np.isclose', 'numpy.isclose') and isinstance(s.value, ast.Constant) and s.value.value == 0)


def _env(ctx):
    boxmod = ctx.mod(BOX)
    cls = ctx.fn(BOX, 'Box')
    plane = ctx.fn(PLANE, 'Plane')
    shape = ctx.fn(SHAPE, 'Shape')
    va = ctx.fn(VA, 'vect_angle')
    ev = SymEval(module_aliases(boxmod), funcs={'vect_angle': va})
    ev.classes['Plane'] = (plane, ())
    ev.skip = lambda s: _is_cleanup(s) or (isinstance(s, ast.Try) and 'cosine' in norm(s))
    return ev, cls, shape, plane, va


def _box(cls, shape, V=None, o=None):
    V = symarray('v', (3, 3), real=True) if V is None else V
    o = symarray('o', (3,), real=True) if o is None else o
    return SymObj(cls, {'_Box__vects': V.copy(), '_Box__origin': o.copy(), '_Box__reciprocal_vects': None}, 'box', (shape,))


def _tri():
    lx, ly, lz = sp.symbols('lx ly lz', positive=True)
    xy, xz, yz = sp.symbols('xy xz yz', real=True)
    return arr([[lx, 0, 0], [xy, ly, 0], [xz, yz, lz]]), (lx, ly, lz, xy, xz, yz)


def _call(ev, obj, name, *args, **kw):
    fn, _ = obj.lookup(name)
    if fn is None:
        raise AnalysisError('anchor vanished: Box.%s' % name)
    return ev.call_fn(fn, [obj] + list(args), kw, Path({}))


def _prop(ev, obj, name):
    return ev.getattr(obj, name, ast.parse(name, mode='eval').body, Path({}))


def _unclip(e):
    """the rounding guard min(max(x, -1), 1) is the identity on a normalised dot product (Cauchy-Schwarz): compare modulo it"""
    e = sp.sympify(e)

    def strip(x):
        if isinstance(x, sp.Min) and len(x.args) == 2 and 1 in x.args:
            y = [a_ for a_ in x.args if a_ != 1][0]
            if isinstance(y, sp.Max) and len(y.args) == 2 and -1 in y.args:
                return [a_ for a_ in y.args if a_ != -1][0]
        if isinstance(x, sp.Max) and len(x.args) == 2 and -1 in x.args:
            y = [a_ for a_ in x.args if a_ != -1][0]
            if isinstance(y, sp.Min) and len(y.args) == 2 and 1 in y.args:
                return [a_ for a_ in y.args if a_ != 1][0]
        return x
    prev = None
    while prev != e:
        prev = e
        e = e.replace(lambda x: isinstance(x, (sp.Min, sp.Max)), strip)
    return e


def _one_ret(paths):
    live = [q for q in paths if q.done == 'return']
    if len(live) != 1:
        raise Opaque('no single returning path')
    return live[0].ret


def chain(ctx):
    ev, cls, shape, plane, va = _env(ctx)
    loc = BOX + '::Box.set_abc'
    a, b, c = sp.symbols('a b c', positive=True)
    al, be, ga = sp.symbols('alpha beta gamma', positive=True)
    og = symarray('g', (3,), real=True)
    box = _box(cls, shape)
    decided = []

    def decide(text, v, p):
        # the refusal of angles outside (0,180) is outside the quantifier: take the accepting branch
        if '180' in text:
            decided.append(text)
            return False
        if isinstance(v, sp.Equality) or '==' in text:
            return False          # an angle in general position is no particular angle
        return None
    ev.decide = decide
    fn = ctx.fn(BOX, 'Box.set_abc')
    try:
        ev.call_fn(fn, [box, a, b, c, al, be, ga, og], {}, Path({}))
    except WouldRaise as e:
        ctx.ob('CHAIN', loc, 'lengths, angles and an origin given as an array are accepted', False, str(e)[:200], node=fn, key='set_abc accepts')
        ev.decide = None
        return
    # exactly one right angle among three different angles (a monoclinic or triclinic cell): the same six identities, with cos 90 = 0
    for rtag, angs in (('alpha = 90', (sp.Integer(90), be, ga)), ('beta = 90', (al, sp.Integer(90), ga)), ('gamma = 90', (al, be, sp.Integer(90)))):
        bx1 = _box(cls, shape)
        try:
            ev.call_fn(fn, [bx1, a, b, c, angs[0], angs[1], angs[2], og], {}, Path({}))
        except WouldRaise as e:
            ctx.ob('CHAIN', loc, '%s with the other two angles oblique: accepted' % rtag, False, str(e)[:200], node=fn, key='right angle ' + rtag)
            continue
        V1 = bx1.attrs['_Box__vects']
        c1 = [sp.cos(x * sp.pi / 180) for x in angs]
        res = [V1[0].dot(V1[1]) - a * b * c1[2], V1[0].dot(V1[2]) - a * c * c1[1], V1[1].dot(V1[2]) - b * c * c1[0], V1[0].dot(V1[0]) - a ** 2, V1[1].dot(V1[1]) - b ** 2, V1[2].dot(V1[2]) - c ** 2]
        ctx.ob('CHAIN', loc, '%s with the other two angles oblique: lengths and all three angles of the cell built are the ones given' % rtag, all(is_zero(e_) for e_ in res),
               'residuals %s' % [str(sp.simplify(e_)) for e_ in res if not is_zero(e_)][:2], node=fn, key='right angle ' + rtag)
    ev.decide = None
    ctx.ob('CHAIN', loc, 'angles outside (0,180) are refused', len(decided) >= 1, node=fn)
    V = box.attrs['_Box__vects']
    ca, cb, cg = [sp.cos(x * sp.pi / 180) for x in (al, be, ga)]
    ids = [('|a|^2 = a^2', V[0].dot(V[0]) - a ** 2), ('|b|^2 = b^2', V[1].dot(V[1]) - b ** 2), ('|c|^2 = c^2', V[2].dot(V[2]) - c ** 2),
           ('a.b = a b cos(gamma)', V[0].dot(V[1]) - a * b * cg), ('a.c = a c cos(beta)', V[0].dot(V[2]) - a * c * cb), ('b.c = b c cos(alpha)', V[1].dot(V[2]) - b * c * ca)]
    for name, e in ids:
        ctx.ob('CHAIN', loc, 'vectors built from (a,b,c,alpha,beta,gamma) satisfy ' + name, is_zero(e), 'residual %s' % sp.simplify(e), node=fn, key=name)
    ctx.ob('CHAIN', loc, 'the result is in LAMMPS triangular form', all(V[i, j] == 0 for i, j in ((0, 1), (0, 2), (1, 2))), node=fn)
    ctx.ob('CHAIN', loc, 'the origin is the one given', equal(box.attrs['_Box__origin'], og), node=fn)
    # set_lengths literal
    Vt, (lx, ly, lz, xy, xz, yz) = _tri()
    box = _box(cls, shape)
    fn = ctx.fn(BOX, 'Box.set_lengths')
    ev.decide = lambda t, v, p: True if 'lx > 0' in t.replace(' ', ' ') or '> 0' in t else None
    try:
        ev.call_fn(fn, [box, lx, ly, lz, xy, xz, yz, og], {}, Path({}))
    except WouldRaise as e:
        ctx.ob('CHAIN', BOX + '::Box.set_lengths', 'lengths, tilts and an origin given as an array are accepted', False, str(e)[:200], node=fn, key='set_lengths accepts')
        ev.decide = None
        return
    ev.decide = None
    ctx.ob('CHAIN', BOX + '::Box.set_lengths', 'vectors are [[lx,0,0],[xy,ly,0],[xz,yz,lz]] with the given origin',
           equal(box.attrs['_Box__vects'], Vt) and equal(box.attrs['_Box__origin'], og), str(box.attrs['_Box__vects'].tolist()), node=fn)
    pos = [a_ for a_ in ast.walk(fn) if isinstance(a_, ast.Assert)]
    ctx.ob('CHAIN', BOX + '::Box.set_lengths', 'non-positive lengths are refused', any(all(k in norm(a_.test) for k in ('lx > 0', 'ly > 0', 'lz > 0')) for a_ in pos), node=fn)
    # set_hi_los
    lo = symarray('lo', (3,), real=True)
    hi = [lo[i] + l for i, l in enumerate((lx, ly, lz))]
    box = _box(cls, shape)
    fn = ctx.fn(BOX, 'Box.set_hi_los')
    ev.decide = lambda t, v, p: True if '> 0' in t else None
    ev.call_fn(fn, [box, lo[0], hi[0], lo[1], hi[1], lo[2], hi[2], xy, xz, yz], {}, Path({}))
    ev.decide = None
    ctx.ob('CHAIN', BOX + '::Box.set_hi_los', 'lengths are hi-lo, tilts unchanged, origin is (xlo,ylo,zlo)',
           equal(box.attrs['_Box__vects'], Vt) and equal(box.attrs['_Box__origin'], lo), node=fn)
    # getters compose to the identity on hi/lo
    ev.decide = lambda t, v, p: True
    got = [_prop(ev, box, k) for k in ('xlo', 'xhi', 'ylo', 'yhi', 'zlo', 'zhi', 'xy', 'xz', 'yz', 'lx', 'ly', 'lz')]
    ev.decide = None
    want = [lo[0], hi[0], lo[1], hi[1], lo[2], hi[2], xy, xz, yz, lx, ly, lz]
    names = ('xlo', 'xhi', 'ylo', 'yhi', 'zlo', 'zhi', 'xy', 'xz', 'yz', 'lx', 'ly', 'lz')
    for k, g, w in zip(names, got, want):
        ctx.ob('GETTERS', BOX + '::Box.' + k, 'reading %s back from a cell set by lo/hi bounds and tilts returns the value given' % k, is_zero(g - w), 'got %s' % g, key='roundtrip ' + k)
    # set_vectors / set(vects=)
    W = symarray('w', (3, 3), real=True)
    box = _box(cls, shape)
    fn = ctx.fn(BOX, 'Box.set_vectors')
    ev.call_fn(fn, [box, W[0], W[1], W[2], og], {}, Path({}))
    ctx.ob('CHAIN', BOX + '::Box.set_vectors', 'the three given vectors become rows a, b, c; origin as given',
           equal(box.attrs['_Box__vects'], W) and equal(box.attrs['_Box__origin'], og), node=fn)
    # dispatch of set(): Box.set interpreted with recording setters
    st = ctx.fn(BOX, 'Box.set')
    A_, B_, C_, O_ = (symarray(k, (3,), real=True) for k in 'pqrs')
    sets = [('set_vectors', dict(avect=A_, bvect=B_, cvect=C_, origin=O_)), ('set_lengths', dict(lx=a, ly=b, lz=c, xy=al, origin=O_)), ('set_hi_los', dict(xlo=a, xhi=b, ylo=a, yhi=b, zlo=a, zhi=c, xz=al)),
            ('set_abc', dict(a=a, b=b, c=c, alpha=al, beta=be, gamma=ga))]
    bad = []
    for want, kw in sets:
        rec = []
        bx = _box(cls, shape)
        for nm in ('set_vectors', 'set_lengths', 'set_hi_los', 'set_abc'):
            bx.attrs[nm] = (lambda _n: (lambda **k: rec.append((_n, k))))(nm)
        try:
            ev.call_fn(st, [bx], dict(kw), Path({}))
        except (Opaque, WouldRaise) as e:
            bad.append('%s: %s' % (want, e))
            continue
        if len(rec) != 1 or rec[0][0] != want or set(rec[0][1]) != set(kw) or any(rec[0][1][k] is not kw[k] for k in kw):
            bad.append('%s: routed to %s' % (sorted(kw), [(r[0], sorted(r[1])) for r in rec]))
    ctx.ob('CHAIN', BOX + '::Box.set', 'each parameter set (three vectors / LAMMPS lengths and tilts / lo-hi bounds / lengths and angles) is routed, whole, to its own setter', not bad, '; '.join(bad), node=st)
    bx = _box(cls, shape)
    ev.call_fn(st, [bx], dict(vects=W, origin=og), Path({}))
    ctx.ob('CHAIN', BOX + '::Box.set', 'vects= and origin= are stored as given', equal(bx.attrs['_Box__vects'], W) and equal(bx.attrs['_Box__origin'], og), node=st, key='set vects')
    bx = _box(cls, shape)
    V0 = bx.attrs['_Box__vects'].copy()
    ev.call_fn(st, [bx], dict(origin=og), Path({}))
    ctx.ob('CHAIN', BOX + '::Box.set', 'origin= alone moves the cell and keeps its vectors', equal(bx.attrs['_Box__vects'], V0) and equal(bx.attrs['_Box__origin'], og), node=st, key='set origin')
    verd = []
    for kw in (dict(vects=W, a=a), dict(foo=a), dict(vects=W, origin=og, extra=a)):
        bx = _box(cls, shape)
        for nm in ('set_vectors', 'set_lengths', 'set_hi_los', 'set_abc'):
            bx.attrs[nm] = lambda **k: None
        try:
            paths = ev.run_fn(st, [bx], dict(kw))
            verd.append(bool([q for q in paths if q.done == 'return']))
        except WouldRaise:
            verd.append(False)
    ctx.ob('CHAIN', BOX + '::Box.set', 'unknown or surplus parameters are refused', not any(verd), str(verd), node=st, key='set refuse')


def getters(ctx):
    ev, cls, shape, plane, va = _env(ctx)
    V = symarray('v', (3, 3), real=True)
    o = symarray('o', (3,), real=True)
    box = _box(cls, shape, V, o)
    for i, k in enumerate('abc'):
        g = _prop(ev, box, k)
        ctx.ob('GETTERS', BOX + '::Box.' + k, '%s is the length of cell vector %d' % (k, i), is_zero(g ** 2 - V[i].dot(V[i])) and not is_zero(g + sp.sqrt(V[i].dot(V[i]))), 'got %s' % g, key='norm ' + k)
    for k, (i, j) in (('alpha', (1, 2)), ('beta', (0, 2)), ('gamma', (0, 1))):
        g = _prop(ev, box, k)
        want = V[i].dot(V[j]) / sp.sqrt(V[i].dot(V[i]) * V[j].dot(V[j]))
        got = _unclip(sp.cos(g * sp.pi / 180))
        ctx.ob('GETTERS', BOX + '::Box.' + k, '%s is the angle in degrees between cell vectors %d and %d' % (k, i, j), is_zero(sp.simplify(got - want)), 'cos(%s·π/180) = %s' % (k, sp.simplify(got)), key='angle ' + k)
    g = _prop(ev, box, 'volume')
    det = sp.Matrix(V.tolist()).det()
    ctx.ob('GETTERS', BOX + '::Box.volume', 'volume is |a·(b×c)|', is_zero(sp.expand(g ** 2 - det ** 2)) and g.func == sp.Abs, 'got %s' % g, key='volume')
    # vect_angle: radian arm and the clipping statement
    vafn = ctx.fn(VA, 'vect_angle')
    u, w = symarray('u', (3,), real=True), symarray('w', (3,), real=True)
    r = ev.call_fn(vafn, [u, w, 'radian'], {}, Path({}))
    want = u.dot(w) / sp.sqrt(u.dot(u) * w.dot(w))
    ctx.ob('GETTERS', VA + '::vect_angle', 'radian result is arccos of the normalised dot product', is_zero(sp.simplify(_unclip(sp.cos(r)) - want)), key='vect_angle radian')
    U2, W2 = symarray('p', (2, 3), real=True), symarray('q', (2, 3), real=True)
    r2 = ev.call_fn(vafn, [U2, W2, 'degree'], {}, Path({}))
    ok = hasattr(r2, 'shape') and tuple(r2.shape) == (2,) and all(is_zero(sp.simplify(_unclip(sp.cos(r2[i] * sp.pi / 180)) - U2[i].dot(W2[i]) / sp.sqrt(U2[i].dot(U2[i]) * W2[i].dot(W2[i])))) for i in range(2))
    ctx.ob('GETTERS', VA + '::vect_angle', 'stacks of vectors are handled row by row', ok, key='vect_angle stack')
    # the rounding guard: norms that come out a hair short (as rounding can make them) push the cosine of (anti)parallel vectors beyond ±1
    eps = sp.Rational(1, 10 ** 9)

    def short_norm(v, axis=None, keepdims=False, **k):
        a_ = np.asarray(v, dtype=object)
        sq = np.sum(a_ * a_, axis=axis, keepdims=bool(keepdims))
        f = lambda e: sp.sqrt(sp.nsimplify(e)) * (1 - eps)
        return np.array([f(e) for e in np.ravel(sq)], dtype=object).reshape(np.shape(sq)) if np.ndim(sq) else f(sq)
    ev3 = SymEval(module_aliases(ctx.mod(VA)))
    ev3.np_override = {'numpy.linalg.norm': short_norm}

    def cmp_decide(text, v, p):
        if isinstance(v, sp.core.relational.Relational):
            d = sp.N(v.lhs - v.rhs, 40)
            return {sp.StrictLessThan: d < 0, sp.StrictGreaterThan: d > 0, sp.LessThan: d <= 0, sp.GreaterThan: d >= 0}.get(type(v))
        return None
    ev3.decide = cmp_decide
    pairs = [([1, 2, 2], [2, 4, 4], sp.Integer(0)), ([1, 2, 2], [-3, -6, -6], sp.Integer(180)), ([1, 0, 0], [1, 1, 0], None)]
    try:
        single = [_one_ret(ev3.run_fn(vafn, [arr(p), arr(q), 'degree'], {})) for p, q, w in pairs]
        stack = _one_ret(ev3.run_fn(vafn, [arr([p for p, q, w in pairs]), arr([q for p, q, w in pairs]), 'degree'], {}))
        okc = all(w is None or sp.simplify(sp.sympify(r_) - w) == 0 for (p, q, w), r_ in zip(pairs, single)) and np.shape(stack) == (3,) \
            and all(w is None or sp.simplify(sp.sympify(r_) - w) == 0 for (p, q, w), r_ in zip(pairs, stack)) and abs(float(sp.N(single[2])) - 45) < 1e-6 and abs(float(sp.N(stack[2])) - 45) < 1e-6
        det = 'single %s, stacked %s' % ([str(sp.N(x, 8)) for x in single], [str(sp.N(x, 8)) for x in np.ravel(stack)])
    except (Opaque, WouldRaise) as e:
        okc, det = False, 'vect_angle cannot be evaluated when a cosine exceeds 1 by rounding: %s' % e
    ctx.ob('GETTERS', VA + '::vect_angle', 'cosines pushed beyond ±1 by rounding are brought back to ±1 (parallel → exactly 0, antiparallel → exactly 180, single vectors and stacks); cosines within range are left alone', okc, det, key='vect_angle clip')
    # LAMMPS getters on a triangular cell
    Vt, (lx, ly, lz, xy, xz, yz) = _tri()
    box = _box(cls, shape, Vt, o)
    ev.decide = lambda t, v, p: True
    for k, w in (('lx', lx), ('ly', ly), ('lz', lz), ('xy', xy), ('xz', xz), ('yz', yz), ('xlo', o[0]), ('ylo', o[1]), ('zlo', o[2]), ('xhi', o[0] + lx), ('yhi', o[1] + ly), ('zhi', o[2] + lz)):
        g = _prop(ev, box, k)
        ctx.ob('GETTERS', BOX + '::Box.' + k, '%s reads the LAMMPS parameter of a triangular cell' % k, is_zero(g - w), 'got %s' % g, key='tri ' + k)
    ev.decide = None
    # is_lammps_norm tests exactly: three upper entries zero, diagonal positive
    fn = ctx.fn(BOX, 'Box.is_lammps_norm')
    box = _box(cls, shape, V, o)
    r = ev.call_fn(fn, [box], {}, Path({}))
    want = sp.And(sp.Eq(V[0, 1], 0), sp.Eq(V[0, 2], 0), sp.Eq(V[1, 2], 0), V[0, 0] > 0, V[1, 1] > 0, V[2, 2] > 0)
    try:
        ok = sp.simplify(sp.Equivalent(r, want)) == sp.true
    except Exception:
        ok = False
    ctx.ob('GETTERS', BOX + '::Box.is_lammps_norm', 'LAMMPS compatibility = upper entries zero and diagonal positive', ok, str(r), node=fn)
    guarded = 0
    for k in ('lx', 'ly', 'lz', 'xy', 'xz', 'yz', 'xlo', 'ylo', 'zlo', 'xhi', 'yhi', 'zhi'):
        g = ctx.fn(BOX, 'Box.' + k)
        if any(isinstance(s, ast.Assert) and 'is_lammps_norm' in norm(s.test) for s in g.body):
            guarded += 1
    ctx.ob('GETTERS', BOX + '::Box', 'LAMMPS-style getters refuse cells that are not LAMMPS compatible', guarded == 12, '%d of 12 guarded' % guarded)
    # lattice parameters -> set_abc is the identity on triangular cells
    box = _box(cls, shape, Vt, o)
    pars = [_prop(ev, box, k) for k in ('a', 'b', 'c', 'alpha', 'beta', 'gamma')]
    box2 = _box(cls, shape)
    ev.decide = lambda t, v, p: (False if '180' in t else (True if '> 0' in t else None))
    ev.call_fn(ctx.fn(BOX, 'Box.set_abc'), [box2] + pars + [o], {}, Path({}))
    ev.decide = None
    V2 = box2.attrs['_Box__vects']
    bad = [(i, j) for i in range(3) for j in range(3) if not is_zero(sp.simplify(_unclip(V2[i, j]) - Vt[i, j]))]
    ctx.ob('GETTERS', BOX + '::Box.set_abc', 'reading (a,b,c,alpha,beta,gamma) from a LAMMPS-compatible cell and rebuilding returns the same vectors', not bad,
           'entries differing: %s' % bad, key='abc roundtrip')


def scale_free_cleanup(ctx, rule):
    """the cell-vector setter interpreted on concrete cells at three scales (components of order 1, 1e-10 as for a cell in metres, 1e+10): what is stored is what was given,
    except that components tiny *relative to the largest one* (rotation round-off) become exact zeros; the reciprocal-vector cache is reset.  A cell in metres is the
    same cell as in angstroms and must survive.  Shared with the properties that read the cell through this setter."""
    st = ctx.fn(BOX, 'Box.vects', setter=True)
    cls = ctx.fn(BOX, 'Box')
    loc = BOX + '::Box.vects.setter'
    R = sp.Rational
    base = [[R(3), R(0), R(0)], [R(1, 2), R(4), R(0)], [R(1, 5), R(3, 10), R(5)]]
    n = 0
    for stag, sc in (('order one', R(1)), ('1e-10 (a cell in metres)', R(1, 10 ** 10)), ('1e+10', R(10) ** 10)):
        for ntag, noise, keeps in (('no round-off', None, True), ('a component 1e-12 of the largest (rotation round-off)', R(1, 10 ** 12), False), ('a component 1e-6 of the largest (a real, small tilt)', R(1, 10 ** 6), True)):
            M = np.array([[x_ * sc for x_ in row] for row in base], dtype=object)
            want = M.copy()
            if noise is not None:
                M[0, 1] = 5 * sc * noise
                want[0, 1] = M[0, 1] if keeps else R(0)
            obj = SymObj(cls, {'_Box__vects': arr(sp.eye(3).tolist()), '_Box__origin': arr([0, 0, 0]), '_Box__reciprocal_vects': 'STALE'}, 'self')
            ev = SymEval(module_aliases(ctx.mod(BOX)))
            given = M.copy()
            try:
                live = [q for q in ev.run_fn(st, [obj, given], {}) if q.done == 'return']
                why = ''
            except WouldRaise as e:
                live, why = [], str(e)
            except Opaque as e:
                raise AnalysisError('Box.vects setter (%s, %s): %s' % (stag, ntag, e))
            got = obj.attrs.get('_Box__vects')
            ok = len(live) == 1 and got is not None and np.shape(got) == (3, 3) and all(is_zero(sp.nsimplify(x_) - sp.nsimplify(y_)) for x_, y_ in zip(np.ravel(got), np.ravel(want)))
            n += 1
            ctx.ob(rule, loc, 'components of %s, %s: the vectors are stored as given%s' % (stag, ntag, '' if keeps else ' with the round-off component set to exactly zero'), bool(ok),
                   why or 'stored %s' % (None if got is None else [str(x_) for x_ in np.ravel(got)],), node=st, key='setter %s %s' % (stag, ntag[:30]))
            if noise is None:
                ctx.ob(rule, loc, 'components of %s: the reciprocal-vector cache is reset and the caller\'s array is left as it was' % stag,
                       obj.attrs.get('_Box__reciprocal_vects') is None and equal(given, M, deep=False), node=st, key='setter cache %s' % stag)
    # the reciprocal cache is reset whenever the vectors are set, however little they changed and whatever their scale (a nearly equal cell is another cell)
    for tag, oldM, newM in (('a cell stretched by one part in ten million', [[x_ for x_ in row] for row in base], [[x_ * (1 + R(1, 10 ** 7)) for x_ in row] for row in base]),
                            ('a cell in metres doubled in size', [[x_ * R(1, 10 ** 10) for x_ in row] for row in base], [[x_ * R(2, 10 ** 10) for x_ in row] for row in base]),
                            ('a cell without a single zero component (arbitrarily oriented)', [[3, 1, 2], [-1, 4, 1], [1, -2, 5]], [[2, 1, 3], [-1, 5, 1], [1, -2, 4]])):
        obj = SymObj(cls, {'_Box__vects': np.array(oldM, dtype=object), '_Box__origin': arr([0, 0, 0]), '_Box__reciprocal_vects': 'STALE'}, 'self')
        ev = SymEval(module_aliases(ctx.mod(BOX)))
        try:
            live = [q for q in ev.run_fn(st, [obj, np.array(newM, dtype=object)], {}) if q.done == 'return']
        except WouldRaise as e:
            live = []
        except Opaque as e:
            raise AnalysisError('Box.vects setter (%s): %s' % (tag, e))
        got = obj.attrs.get('_Box__vects')
        ok = len(live) == 1 and obj.attrs.get('_Box__reciprocal_vects') is None and got is not None and all(is_zero(sp.nsimplify(x_) - y_) for x_, y_ in zip(np.ravel(got), np.ravel(np.array(newM, dtype=object))))
        n += 1
        ctx.ob(rule, loc, '%s: the new vectors are stored and the reciprocal-vector cache is reset' % tag, bool(ok), 'cache after setting: %r' % (obj.attrs.get('_Box__reciprocal_vects'),), node=st, key='setter reset ' + tag[:30])
    # the setters keep values, not the caller's arrays: a caller who goes on using the array it passed (origin += shift) must not move the box
    for pname, attr, val in (('vects', '_Box__vects', np.array(base, dtype=object)), ('origin', '_Box__origin', np.array([R(3, 2), R(-9, 4), R(3, 4)], dtype=object))):
        sfn = ctx.fn(BOX, 'Box.' + pname, setter=True)
        obj = SymObj(cls, {'_Box__vects': arr(sp.eye(3).tolist()), '_Box__origin': arr([0, 0, 0]), '_Box__reciprocal_vects': None}, 'self')
        ev = SymEval(module_aliases(ctx.mod(BOX)))
        given = val.copy()
        try:
            live = [q for q in ev.run_fn(sfn, [obj, given], {}) if q.done == 'return']
        except (Opaque, WouldRaise) as e:
            raise AnalysisError('Box.%s setter: %s' % (pname, e))
        got = obj.attrs.get(attr)
        ok = len(live) == 1 and is_arr(got) and got is not given and not np.shares_memory(got, given) and equal(np.asarray(got, dtype=object), val, deep=False)
        n += 1
        ctx.ob(rule, BOX + '::Box.%s.setter' % pname, 'the %s setter stores the values, not the array it was given (no memory shared with the caller\'s array)' % pname, bool(ok), node=sfn, key='setter owns ' + pname)
    # ... and the getters hand out values, not windows into the stored arrays: a caller who normalises the vector it read (u = box.avect; u /= norm(u)) must not
    # change the box behind the setter's back (the reciprocal-vector cache would go stale), and a vector read earlier must not change when the box is set again
    for gname in ('vects', 'origin', 'avect', 'bvect', 'cvect'):
        try:
            gfn = ctx.fn(BOX, 'Box.' + gname)
        except Exception:
            continue
        stored_v = np.array(base, dtype=object)
        stored_o = np.array([R(3, 2), R(-9, 4), R(3, 4)], dtype=object)
        obj = SymObj(cls, {'_Box__vects': stored_v, '_Box__origin': stored_o, '_Box__reciprocal_vects': None}, 'self')
        ev = SymEval(module_aliases(ctx.mod(BOX)))
        try:
            live = [q for q in ev.run_fn(gfn, [obj], {}) if q.done == 'return']
        except (Opaque, WouldRaise) as e:
            raise AnalysisError('Box.%s getter: %s' % (gname, e))
        got = live[0].ret if len(live) == 1 else None
        ok = is_arr(got) and not np.shares_memory(got, stored_v) and not np.shares_memory(got, stored_o)
        n += 1
        ctx.ob(rule, BOX + '::Box.%s' % gname, 'the %s getter hands out an array of its own (no memory shared with the stored vectors or origin)' % gname, bool(ok), node=gfn, key='getter owns ' + gname)
    return n


def cache(ctx):
    cls = ctx.fn(BOX, 'Box')
    writers = {}
    for fn in [n for n in cls.body if isinstance(n, ast.FunctionDef)]:
        q = fn.name + ('.setter' if is_setter(fn) else '')
        # local names bound to the stored array (vects = self.__vects) write to it just the same
        alias = {t.id for s in ast.walk(fn) if isinstance(s, ast.Assign) and norm(s.value) == 'self.__vects' for t in s.targets if isinstance(t, ast.Name)}
        for s in ast.walk(fn):
            tg = []
            if isinstance(s, ast.Assign):
                tg = s.targets
            elif isinstance(s, ast.AugAssign):
                tg = [s.target]
            for t in tg:
                base = t
                sub = False
                while isinstance(base, ast.Subscript):
                    base = base.value
                    sub = True
                if norm(base) == 'self.__vects' or (sub and isinstance(base, ast.Name) and base.id in alias) or (isinstance(s, ast.AugAssign) and isinstance(base, ast.Name) and base.id in alias):
                    writers.setdefault(q, []).append(s)
    ctx.ob('CACHE', BOX + '::Box', 'the stored cell vectors are written only by the constructor and the vects setter', set(writers) == {'__init__', 'vects.setter'},
           'writers: %s' % sorted(writers), key='writers')
    scale_free_cleanup(ctx, 'CACHE')
    # reciprocal vectors dual to vects
    ev, cls_, shape, plane, va = _env(ctx)
    V = symarray('v', (3, 3), real=True)
    box = _box(cls_, shape, V)
    R = _prop(ev, box, 'reciprocal_vects')
    ctx.ob('CACHE', BOX + '::Box.reciprocal_vects', 'reciprocal vectors are dual to the cell vectors (R·Vᵀ = I)', equal(np.dot(R, V.T), arr(sp.eye(3).tolist())), node=ctx.fn(BOX, 'Box.reciprocal_vects'))
    g = ctx.fn(BOX, 'Box.reciprocal_vects')
    # by evaluation: a reset cache (None) is recomputed from the vectors and stored; a filled cache is handed out as it is
    cls_node = ctx.fn(BOX, 'Box')
    Vc = np.array([[2, 0, 0], [1, 3, 0], [sp.Rational(1, 2), -1, 4]], dtype=object)
    stale = np.array(sp.eye(3).tolist(), dtype=object) * 7
    res = {}
    for tag, cache0 in (('reset', None), ('filled', stale)):
        obj = SymObj(cls_node, {'_Box__vects': Vc.copy(), '_Box__origin': arr([0, 0, 0]), '_Box__reciprocal_vects': cache0}, 'self')
        ev_ = SymEval(module_aliases(ctx.mod(BOX)))
        try:
            live = [q for q in ev_.run_fn(g, [obj], {}) if q.done == 'return']
        except (Opaque, WouldRaise) as e:
            raise AnalysisError('Box.reciprocal_vects (%s cache): %s' % (tag, e))
        res[tag] = (live[0].ret if len(live) == 1 else None, obj.attrs.get('_Box__reciprocal_vects'))
    want = np.array(sp.Matrix(Vc.tolist()).inv().T.tolist(), dtype=object)
    ok = res['reset'][0] is not None and equal(np.asarray(res['reset'][0], dtype=object), want, deep=False) and res['reset'][1] is not None and equal(np.asarray(res['reset'][1], dtype=object), want, deep=False) \
        and res['filled'][0] is stale and res['filled'][1] is stale
    ctx.ob('CACHE', BOX + '::Box.reciprocal_vects', 'the cache is recomputed (from the stored vectors, and kept) exactly when it was reset; a filled cache is handed out as it is', bool(ok),
           'reset: returned %s; filled: %s' % (None if res['reset'][0] is None else np.asarray(res['reset'][0]).tolist(), 'the cached array' if res['filled'][0] is stale else 'another value'), node=g)
    # getters hand out copies
    for k in ('vects', 'origin'):
        g = ctx.fn(BOX, 'Box.' + k)
        eff = effects.Effects(g)
        rets = [s for s in ast.walk(g) if isinstance(s, ast.Return)]
        ok = all(eff.origins(r.value) == {effects.FRESH} for r in rets) and rets
        ctx.ob('CACHE', BOX + '::Box.' + k, '%s hands out a copy, never the stored array' % k, bool(ok), '; '.join(norm(r) for r in rets), node=g, key='copy ' + k)


def _degree(e):
    """degree of homogeneity in self.__vects of a numpy expression; None if not homogeneous / unknown"""
    if isinstance(e, ast.Attribute) and norm(e) in ('self.__vects', 'self.vects'):
        return 1
    if isinstance(e, ast.Name) and e.id in ('value', 'vects'):
        return 1
    if isinstance(e, ast.Constant) and isinstance(e.value, (int, float)):
        return 0
    if isinstance(e, ast.Call):
        f = norm(e.func)
        if f in ('abs', 'np.abs', 'np.absolute', 'np.max', 'np.amax', 'np.linalg.norm', 'np.asarray', 'np.array') and e.args:
            return _degree(e.args[0])
        if isinstance(e.func, ast.Attribute) and e.func.attr in ('max', 'min', 'mean', 'copy') and not e.args:
            return _degree(e.func.value)
        if f in ('np.linalg.det',) and e.args:
            d = _degree(e.args[0])
            return None if d is None else 3 * d
        return None
    if isinstance(e, ast.BinOp):
        a, b = _degree(e.left), _degree(e.right)
        if a is None or b is None:
            return None
        if isinstance(e.op, ast.Mult):
            return a + b
        if isinstance(e.op, ast.Div):
            return a - b
        if isinstance(e.op, (ast.Add, ast.Sub)):
            return a if a == b else None
        if isinstance(e.op, ast.Pow) and isinstance(e.right, ast.Constant):
            return a * e.right.value
    if isinstance(e, ast.UnaryOp):
        return _degree(e.operand)
    if isinstance(e, ast.Subscript):
        return _degree(e.value)
    return None


def convert(ctx):
    ev, cls, shape, plane, va = _env(ctx)
    V = symarray('v', (3, 3), real=True)
    o = symarray('o', (3,), real=True)
    r2c = ctx.fn(BOX, 'Box.position_relative_to_cartesian')
    c2r = ctx.fn(BOX, 'Box.position_cartesian_to_relative')
    ev.decide = lambda t, v, p: None
    for shp in ((3,), (2, 3), (2, 2, 3), (2, 3, 3)):       # (.., 3, 3): a per-atom tensor property stored box-relative (every axis before the last is a leading axis)
        box = _box(cls, shape, V, o)
        r = symarray('r', shp, real=True)
        try:
            x = ev.call_fn(r2c, [box, r.copy()], {}, Path({}))
        except WouldRaise as e:
            ctx.ob('CONVERT', BOX + '::Box.position_relative_to_cartesian', 'relative -> Cartesian is r·V + origin for points of shape %s' % (shp,), False, str(e)[:200], node=r2c, key='r2c %s' % (shp,))
            continue
        want = np.dot(r, V) + o
        ctx.ob('CONVERT', BOX + '::Box.position_relative_to_cartesian', 'relative -> Cartesian is r·V + origin for points of shape %s' % (shp,), equal(x, want, deep=False), node=r2c, key='r2c %s' % (shp,))
        try:
            back = ev.call_fn(c2r, [box, x], {}, Path({}))
        except WouldRaise as e:
            ctx.ob('CONVERT', BOX + '::Box.position_cartesian_to_relative', 'Cartesian -> relative inverts relative -> Cartesian for points of shape %s' % (shp,), False, str(e)[:200], node=c2r, key='c2r %s' % (shp,))
            continue
        ok = hasattr(back, 'shape') and tuple(back.shape) == shp and all(is_zero(sp.cancel(sp.together(a - b))) for a, b in zip(back.flat, r.flat))
        ctx.ob('CONVERT', BOX + '::Box.position_cartesian_to_relative', 'Cartesian -> relative inverts relative -> Cartesian for points of shape %s' % (shp,), ok, node=c2r, key='c2r %s' % (shp,))
    # concrete cells with many zero entries (any shortcut taken for "simple" cells must still be the inverse): axis-permuted orthogonal, diagonal, one tilt only, one zero row entry
    R_ = sp.Rational
    for ctag, Vc in (('orthogonal cell with a along y, b along z, c along x', [[0, 3, 0], [0, 0, 4], [5, 0, 0]]), ('axis-aligned orthogonal cell', [[3, 0, 0], [0, 4, 0], [0, 0, 5]]),
                     ('monoclinic cell, one tilt', [[3, 0, 0], [0, 4, 0], [R_(-3, 2), 0, 5]]), ('rotated cell with three zero entries', [[0, 3, 4], [0, -4, 3], [5, 0, 0]])):
        Vc = np.array([[sp.sympify(x) for x in row] for row in Vc], dtype=object)
        oc = np.array([R_(1, 2), R_(-2), R_(3)], dtype=object)
        rc = np.array([[R_(1, 4), R_(1, 3), R_(1, 5)], [R_(7, 2), R_(-5, 3), R_(3, 4)]], dtype=object)
        boxc = _box(cls, shape, Vc, oc)
        try:
            backc = ev.call_fn(c2r, [boxc, rc.dot(Vc) + oc], {}, Path({}))
            okc = hasattr(backc, 'shape') and tuple(backc.shape) == (2, 3) and all(is_zero(sp.nsimplify(sp.sympify(a_)) - b_) for a_, b_ in zip(np.ravel(backc), np.ravel(rc)))
            detc = 'got %s' % ([str(x) for x in np.ravel(backc)],)
        except WouldRaise as e:
            okc, detc = False, str(e)[:200]
        ctx.ob('CONVERT', BOX + '::Box.position_cartesian_to_relative', '%s: Cartesian -> relative recovers the relative coordinates' % ctag, bool(okc), detc, node=c2r, key='c2r concrete ' + ctag[:30])
    for fn, pname in ((r2c, 'relpos'), (c2r, 'cartpos')):
        muts, eff = effects.param_mutations(fn, {pname})
        ctx.ob('CONVERT', BOX + '::Box.' + fn.name, 'the conversion does not write to the array it is given', not muts,
               '; '.join('%s (line %d)' % (w, n.lineno) for n, r, w in muts), node=muts[0][0] if muts else fn, key='no-mutate ' + fn.name)
        # dimension refusal, by evaluation on points with two and with four components
        acc = []
        for shp in ((2,), (5, 4)):
            try:
                if [q_ for q_ in SymEval(module_aliases(ctx.mod(BOX))).run_fn(fn, [box, symarray('w', shp, real=True)], {}) if q_.done == 'return']:
                    acc.append(shp)
            except WouldRaise:
                pass
            except Opaque as e:
                raise AnalysisError('Box.%s on points of shape %s: %s' % (fn.name, shp, e))
        ctx.ob('CONVERT', BOX + '::Box.' + fn.name, 'inputs whose last dimension is not 3 are refused', not acc, 'accepted shapes %s' % acc, node=fn, key='dim refusal ' + fn.name)


def inside(ctx):
    ev, cls, shape, plane, va = _env(ctx)
    V = symarray('v', (3, 3), real=True)
    o = symarray('o', (3,), real=True)
    det = sp.Matrix(V.tolist()).det()
    crosses = [np.cross(V[1], V[2]), np.cross(V[2], V[0]), np.cross(V[0], V[1])]
    S = [sp.Integer(1)] + [sum(x ** 2 for x in c) for c in crosses]
    fn = ctx.fn(BOX, 'Box.inside')
    loc = BOX + '::Box.inside'
    for inclusive in (True, False):
        box = _box(cls, shape, V, o)
        r = symarray('r', (3,), real=True)
        pos = np.dot(r, V) + o
        res = ev.call_fn(fn, [box, pos, inclusive], {}, Path({}))
        if isinstance(res, sp.logic.boolalg.BooleanFunction):
            # the same predicate written through complements (not (above or above ...)): negations pushed inwards, nothing else rewritten
            res = sp.to_nnf(res, simplify=False)
        terms = list(res.args) if isinstance(res, sp.And) else [res]
        faces = {}
        badop = []
        for t in terms:
            if not isinstance(t, sp.core.relational.Relational):
                continue
            e = t.lhs - t.rhs
            if isinstance(t, (sp.Ge, sp.Gt)):
                e = -e
            strict = isinstance(t, (sp.Lt, sp.Gt))
            if strict == inclusive:
                badop.append(str(t.func))
            hit = None
            for Sk in S:
                q = sp.expand(sp.simplify(e * sp.sqrt(Sk)))
                for i in range(3):
                    if sp.expand(q + det * r[i]) == 0:
                        hit = ('lo', i)
                    if sp.expand(q - det * (r[i] - 1)) == 0:
                        hit = ('hi', i)
                if hit:
                    break
            if hit:
                faces[hit] = faces.get(hit, 0) + 1
        want = {(s, i) for s in ('lo', 'hi') for i in range(3)}
        ctx.ob('INSIDE', loc, 'inside(inclusive=%s) is the conjunction of r_i ≥ 0 and r_i ≤ 1 for i = 1..3 (right-handed cell), each face once' % inclusive,
               set(faces) == want and len(terms) == 6, 'faces recognised: %s of %d terms' % (sorted(faces), len(terms)), node=fn, key='faces %s' % inclusive)
        ctx.ob('INSIDE', loc, 'boundary %s when inclusive=%s' % ('included (≤)' if inclusive else 'excluded (<)', inclusive), not badop and len(terms) == 6, str(badop), node=fn, key='op %s' % inclusive)
    # shapes: stacks of points give elementwise the single-point answer
    below = ctx.fn(PLANE, 'Plane.below')
    nrm, pt = symarray('n', (3,), real=True), symarray('t', (3,), real=True)
    pl = SymObj(plane, {'_Plane__normal': nrm, '_Plane__point': pt}, 'plane')
    for shp in ((2, 3), (2, 2, 3), (3, 3, 3), (2, 3, 3)):
        P = symarray('p', shp, real=True)
        try:
            res = ev.call_fn(below, [pl, P, True], {}, Path({}))
        except WouldRaise as e:
            ctx.ob('INSIDE', PLANE + '::Plane.below', 'points of leading shape %s are tested one by one (result shape %s)' % (shp[:-1], shp[:-1]), False, str(e), node=below, key='below shape %s' % (shp,))
            continue
        ok = hasattr(res, 'shape') and tuple(res.shape) == shp[:-1]
        if ok:
            for idx in np.ndindex(shp[:-1]):
                single = ev.call_fn(below, [pl, P[idx], True], {}, Path({}))
                ok = ok and _rel_canon(res[idx]) == _rel_canon(single)
        ctx.ob('INSIDE', PLANE + '::Plane.below', 'points of leading shape %s are tested one by one (result shape %s)' % (shp[:-1], shp[:-1]), ok, node=below, key='below shape %s' % (shp,))
    # Plane.below single point: n·pos vs n·point
    P1 = symarray('p', (3,), real=True)
    for inc, op in ((True, sp.Le), (False, sp.Lt)):
        res = ev.call_fn(below, [pl, P1, inc], {}, Path({}))
        want = op(nrm.dot(P1) - nrm.dot(pt), 0)
        try:
            ok = sp.simplify(sp.Equivalent(res, want)) == sp.true or is_zero((res.lhs - res.rhs) - (nrm.dot(P1) - nrm.dot(pt))) and res.func == op
        except Exception:
            ok = False
        ctx.ob('INSIDE', PLANE + '::Plane.below', 'below(inclusive=%s) compares normal·pos with normal·point using %s' % (inc, '≤' if inc else '<'), ok, str(res), node=below, key='below op %s' % inc)
    # normal stored as a positive multiple of the given vector
    nset = ctx.fn(PLANE, 'Plane.normal', setter=True)
    pl2 = SymObj(plane, {}, 'plane')
    ev.call_fn(nset, [pl2, nrm], {}, Path({}))
    got = pl2.attrs.get('_Plane__normal')
    ok = got is not None and all(is_zero(sp.simplify(got[i] * sp.sqrt(nrm.dot(nrm)) - nrm[i])) for i in range(3))
    ctx.ob('INSIDE', PLANE + '::Plane.normal.setter', 'the stored normal is the given vector divided by its length (direction and sign kept)', ok, node=nset)
    # outside = ~inside(not inclusive)
    out = ctx.fn(SHAPE, 'Shape.outside')
    rets = [s for s in ast.walk(out) if isinstance(s, ast.Return)]
    ok = len(rets) == 1 and isinstance(rets[0].value, ast.UnaryOp) and isinstance(rets[0].value.op, ast.Invert) and isinstance(rets[0].value.operand, ast.Call) \
        and norm(rets[0].value.operand.func) == 'self.inside' and norm(kwarg(rets[0].value.operand, 'inclusive', 1)) == 'not inclusive' and norm(rets[0].value.operand.args[0]) == 'pos'
    ctx.ob('INSIDE', SHAPE + '::Shape.outside', 'outside is the complement of inside with the boundary rule flipped', ok, node=out)


def _rel_canon(t):
    """relational -> (expanded lhs-rhs oriented as 'e <= 0' / 'e < 0', strict)"""
    if not isinstance(t, sp.core.relational.Relational):
        return ('?', str(t))
    e = t.lhs - t.rhs
    if isinstance(t, (sp.Ge, sp.Gt)):
        e = -e
    return (sp.expand(e), isinstance(t, (sp.Lt, sp.Gt)))


NDARRAY_ONLY = {'shape', 'ndim', 'dot', 'T', 'reshape', 'astype', 'sum', 'size', 'dtype', 'flatten', 'tolist', 'max', 'min', 'copy', 'transpose'}


def arraylike(ctx, files=(BOX, PLANE, VA)):
    n = 0
    for rel in files:
        mod = ctx.mod(rel)
        for fn in [x for x in ast.walk(mod) if isinstance(x, ast.FunctionDef)]:
            for a in fn.args.args + fn.args.kwonlyargs:
                if a.annotation is None or 'ArrayLike' not in norm(a.annotation):
                    continue
                n += 1
                # first rebinding of the parameter itself from a conversion
                conv_line = None
                for s in fn.body:
                    if isinstance(s, ast.Assign) and any(isinstance(t, ast.Name) and t.id == a.arg for t in s.targets) and isinstance(s.value, ast.Call) \
                            and norm(s.value.func) in ('np.asarray', 'np.array', 'np.asanyarray', 'numpy.asarray'):
                        conv_line = s.lineno
                        break
                bad = []
                for x in walk_no_nested(fn):
                    if isinstance(x, ast.Attribute) and isinstance(x.value, ast.Name) and x.value.id == a.arg and x.attr in NDARRAY_ONLY:
                        if conv_line is None or x.lineno < conv_line:
                            bad.append(x)
                q = '%s::%s' % (rel, _qual(fn))
                if bad:
                    ctx.ob('ARRAYLIKE', q, 'array-like parameter %r is converted before ndarray-only attributes are used' % a.arg, False,
                           '%s.%s used at line %d %s' % (a.arg, bad[0].attr, bad[0].lineno, 'with no conversion of the parameter itself' if conv_line is None else 'before the conversion at line %d' % conv_line),
                           node=bad[0], key='%s.%s' % (a.arg, bad[0].attr))
    ctx.floor('ARRAYLIKE', n, 20)
    ctx.ob('ARRAYLIKE', BOX + '::*', 'all %d array-like parameters in Box.py, Plane.py, vect_angle.py are converted before ndarray-only use' % n, True, key='summary')


def set_types(ctx):
    """the parameter-set constructors build the vectors from whatever numbers they are given: whole-number lengths with fractional tilts must not be truncated (DTYPE-FLOW:
    any array the setters fill element by element is a float array whatever the element type of the parameters)"""
    from .. import dtypeflow as D
    n = 0
    for q in ('Box.set_lengths', 'Box.set_hi_los', 'Box.set_abc', 'Box.set_vectors'):
        try:
            fn = ctx.fn(BOX, q)
        except Exception:
            continue
        n += 1
        flow = D.DtypeFlow(fn, module=ctx.mod(BOX))
        def of(atoms):
            out = set()
            for a_ in atoms:
                if isinstance(a_, tuple) and a_[0] == 'of':
                    out |= set(str(a_[1]).split('|'))
            return out

        def risky(st):
            if D.may_not_be_float(st.buf) and D.may_be_fractional(st.val):
                return True
            # a buffer whose element type is that of some parameters (np.diag([lx, ly, lz])) receiving another parameter: whole-number lengths, fractional tilt
            pb, pv = of(st.buf), of(st.val)
            return bool(pb) and bool(pv) and not pv <= pb and not any(a_ in ('float', 'pyfloat') for a_ in st.buf)
        bad = [st for st in flow.stores if risky(st)]
        ctx.ob('CHAIN', BOX + '::' + q, 'no array filled element by element can be an integer array when the parameters are whole numbers (a fractional tilt or component stored into it would be truncated)',
               not bad, '; '.join('line %d: %s receives %s' % (st.node.lineno, norm(st.target)[:40], D.describe(st.val)) for st in bad[:3]), node=fn, key='set types ' + q)
    ctx.floor('CHAIN/set-types', n, 3)


def inside_scenarios(ctx):
    """inside() on concrete cells: (a) the same cell in other units of length (a closeness test on a plane normal -- a cross product, a length squared -- would show);
    (b) one object used, then given another origin, then used again (whatever it remembers about its faces must follow the origin)"""
    ev, cls, shape, plane, va = _env(ctx)
    fn = ctx.fn(BOX, 'Box.inside')
    loc = BOX + '::Box.inside'
    R = sp.Rational
    V0 = np.array([[R(7, 2), 0, 0], [R(-3, 10), R(18, 5), 0], [R(1, 5), R(-1, 10), R(41, 10)]], dtype=object)
    o0 = np.array([R(3, 2), R(-9, 4), R(3, 4)], dtype=object)
    rel = np.array([[R(3, 10), R(1, 2), R(7, 10)], [R(6, 5), R(1, 2), R(1, 2)], [R(-1, 10), R(1, 5), R(1, 2)], [R(999, 1000), R(1, 1000), R(1, 2)], [R(1, 2), R(1, 2), R(101, 100)]], dtype=object)
    want = [True, False, False, True, False]

    def ask(obj, V, o):
        pts = rel.dot(V) + o
        try:
            res = ev.call_fn(fn, [obj, pts, True], {}, Path({}))
        except WouldRaise as e:
            return 'raises: %s' % str(e)[:80]
        except Opaque as e:
            raise AnalysisError('Box.inside on a concrete cell: %s' % e)
        except Exception as e:
            if type(e).__name__ in ('_FnRaise', '_PyRaise'):
                return 'raises: %s' % str(e)[:80]
            raise
        try:
            return [bool(x) for x in np.ravel(res)]
        except TypeError:
            return 'undecided: %s' % (res,)
    n = 0
    for sc in (sp.Integer(1), R(1, 10 ** 5), R(1, 10 ** 10), sp.Integer(10 ** 6)):
        got = ask(_box(cls, shape, V0 * sc, o0 * sc), V0 * sc, o0 * sc)
        n += 1
        ctx.ob('INSIDE', loc, 'a triclinic cell with lengths x %s: points with relative coordinates inside / outside [0, 1] are reported inside / outside' % sc, got == want, 'got %s' % (got,), node=fn, key='scale %s' % sc)
    obj = _box(cls, shape, V0, o0)
    first = ask(obj, V0, o0)
    o1 = o0 + np.array([5, -3, R(1, 2)], dtype=object)
    setter = ctx.fn(BOX, 'Box.origin', setter=True)
    try:
        ev.call_fn(setter, [obj, o1.copy()], {}, Path({}))
    except (Opaque, WouldRaise) as e:
        raise AnalysisError('Box.origin setter on the model: %s' % e)
    second = ask(obj, V0, o1)
    n += 1
    ctx.ob('INSIDE', loc, 'one object asked, given another origin (origin setter), asked again: the answers follow the new origin', first == want and second == want, 'before %s, after %s' % (first, second), node=fn, key='origin then inside')
    ctx.floor('INSIDE/scenarios', n, 5)


def _qual(fn):
    names = [fn.name]
    p = getattr(fn, '_parent', None)
    while p is not None:
        if isinstance(p, (ast.ClassDef, ast.FunctionDef)):
            names.append(p.name)
        p = getattr(p, '_parent', None)
    return '.'.join(reversed(names))


def run(ctx):
    ctx.explanation = ('C01: the Box setters, getters, conversions and the six half-space tests are extracted from the syntax tree and evaluated over symbolic '
                       'vectors/origin/points (exact algebra); identities between parameter sets, duality of reciprocal vectors, the inverse pair of conversions and the '
                       'face table of inside() are proved as polynomial/rational identities; cache invalidation, who-may-write, copy/no-mutation and array-like '
                       'conversion discipline are structural rules. Not decided: rounding bounds, conditioning, points within rounding of a face.')
    ctx.run_rules([cache, arraylike, chain, getters, convert, inside, inside_scenarios, set_types])
