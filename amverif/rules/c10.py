"""C10 JSON/XML data-model round trip.

Decided statically (writers and readers are evaluated by the analyser on symbolic values; the container is the real
DataModelDict class of the third-party library, holding symbols; atomman itself is not imported):
 * UC-MODEL: uc.value_unit(uc.model(x, unit)) = x for scalars, vectors and arrays of rank 2 and 3 - also when x is a transposed
   (non C-contiguous) view; keys written: value, shape iff rank >= 2, unit iff given; the stored numbers are x / unit.
 * BOX-MODEL: Box.model() writes avect, bvect, cvect, origin under 'box' in the requested unit; reading it back installs the same
   vectors and origin *through the cell setter* (the reciprocal cache of a previously used box is reset).
 * ATOMS-MODEL: natoms and one property entry per requested property (name, data with its unit); the model= constructor branch
   reads every entry back under its name with the unit undone; pos defaults to angstrom.
 * SYSTEM-MODEL: box, periodic flags, symbols, masses (kept whenever any mass is set, None entries in place), atoms; properties
   stored as 'scaled' are converted to box-relative on writing and back to Cartesian on reading with the same box, so the
   composition is the identity; symbols/masses/pbc arguments override the model.
 * EC-MODEL: ElasticConstants.model round trip is the identity on Cij (triclinic = no normalisation).
 * FORMAT: dump('system_model') routes format/f to the matching json/xml call; load finds the key and hands the branch on.
Declined: DataModelDict's JSON/XML encoders and parsers (third party); dtype of values after the text round trip.
"""
import ast
import itertools

import numpy as np
import sympy as sp

from ..core import norm, calls_in, AnalysisError
from ..symx import SymEval, SymObj, PyStub, Path, Opaque, WouldRaise, module_aliases, symarray, is_zero, equal, arr, is_arr

UC = 'atomman/unitconvert.py'
BOX = 'atomman/core/Box.py'
AT = 'atomman/core/Atoms.py'
SYS = 'atomman/core/System.py'
EC = 'atomman/core/ElasticConstants.py'
DSM = 'atomman/dump/system_model/dump.py'
LSM = 'atomman/load/system_model/load.py'


def _dm():
    from DataModelDict import DataModelDict   # third-party container, not part of atomman
    return DataModelDict


def usym(u):
    return sp.Integer(1) if u in (None, 'scaled') else sp.Symbol('U_' + str(u), positive=True)


def _uc_funcs(ctx):
    mod = ctx.mod(UC)
    fs = {n.name: n for n in mod.body if isinstance(n, ast.FunctionDef)}
    out = {}
    for k in ('model', 'value_unit', 'error_unit', 'get_in_units', 'set_in_units'):
        ctx.need(k in fs, 'unitconvert.%s vanished' % k)
        out['atomman.unitconvert.' + k] = fs[k]
        out[k] = fs[k]
    return out


def _ev(ctx, rel, extra_globals=None):
    ev = SymEval(module_aliases(ctx.mod(rel)), funcs=_uc_funcs(ctx))
    ev.aliases.setdefault('uc', 'atomman.unitconvert')
    g = {'DM': _dm(), 'parse': usym, 'OrderedDict': dict}
    g.update(extra_globals or {})
    ev.globals = g
    return ev


def uc_model(ctx, rule='UC-MODEL'):
    mfn, vfn = ctx.fn(UC, 'model'), ctx.fn(UC, 'value_unit')
    loc = UC + '::model'
    cases = [('scalar', sp.Symbol('x0', real=True)), ('vector', symarray('x', (3,), real=True)), ('matrix', symarray('x', (2, 3), real=True)),
             ('transposed matrix view', symarray('x', (3, 2), real=True).T), ('rank 3', symarray('x', (2, 3, 2), real=True)),
             ('rank 3 with swapped axes', symarray('x', (2, 3, 2), real=True).transpose(2, 0, 1))]
    n = 0
    for tag, x in cases:
        for unit in ('GPa', None):
            n += 1
            t = '%s, unit %s' % (tag, unit)
            ev = _ev(ctx, UC)
            try:
                p = [q for q in ev.run_fn(mfn, [x if is_arr(x) else x, unit], {}) if q.done == 'return']
                ctx.need(len(p) == 1, 'uc.model does not reduce to one path (%s)' % t)
                m = p[0].ret
                keys = list(m.keys())
                rank = np.ndim(x)
                want = ['value'] + (['shape'] if rank >= 2 else []) + (['unit'] if unit else [])
                ctx.ob(rule, loc, '%s: keys written are %s' % (t, want), keys == want, str(keys), node=mfn, key=t + ' keys')
                if rank >= 2:
                    ctx.ob(rule, loc, '%s: the recorded shape is the array\'s shape' % t, list(m['shape']) == list(np.shape(x)), str(m.get('shape')), node=mfn, key=t + ' shape')
                flat = [sp.sympify(v) for v in (np.ravel(np.array(m['value'], dtype=object)) if rank else [m['value']])]
                wantv = [v / usym(unit) for v in (np.asarray(x, dtype=object).flatten() if rank else [x])]
                ctx.ob(rule, loc, '%s: stored numbers are the values divided by the unit, in C (row-major) order' % t, len(flat) == len(wantv) and all(is_zero(a - b) for a, b in zip(flat, wantv)),
                       str(flat[:6]), node=mfn, key=t + ' values')
                ev2 = _ev(ctx, UC)
                r = [q for q in ev2.run_fn(vfn, [m], {}) if q.done == 'return']
                ctx.need(len(r) == 1, 'uc.value_unit does not reduce to one path (%s)' % t)
                back = r[0].ret
                ok = np.shape(back) == np.shape(x) and equal(np.asarray(back, dtype=object), np.asarray(x, dtype=object), deep=False) if rank else is_zero(sp.sympify(back) - x)
                ctx.ob(rule, UC + '::value_unit', '%s: reading the model back gives the same array (shape and every element)' % t, bool(ok), 'got %s' % (np.asarray(back, dtype=object).tolist() if rank else back,), node=vfn, key=t + ' round trip')
            except WouldRaise as e:
                ctx.ob(rule, loc, '%s: the writer/reader pair runs to completion' % t, False, str(e), node=mfn, key=t + ' runs')
            except Opaque as e:
                raise AnalysisError('uc.model/value_unit (%s): %s' % (t, e))
    # a value with its error estimate: both are stored in the requested unit under their own keys and both read back
    efn = ctx.fn(UC, 'error_unit')
    for tag, x, err in (('vector with errors', symarray('x', (3,), real=True), symarray('e', (3,), real=True)), ('matrix with errors', symarray('x', (2, 3), real=True), symarray('e', (2, 3), real=True))):
        for unit in ('GPa', None):
            t = '%s, unit %s' % (tag, unit)
            try:
                p = [q for q in _ev(ctx, UC).run_fn(mfn, [x, unit], {'error': err}) if q.done == 'return']
                ctx.need(len(p) == 1, 'uc.model does not reduce to one path (%s)' % t)
                m = p[0].ret
                rv = [q for q in _ev(ctx, UC).run_fn(vfn, [m], {}) if q.done == 'return']
                re_ = [q for q in _ev(ctx, UC).run_fn(efn, [m], {}) if q.done == 'return']
                ctx.need(len(rv) == 1 and len(re_) == 1, 'uc.value_unit / error_unit do not reduce to one path (%s)' % t)
                ok = 'error' in m and equal(np.asarray(rv[0].ret, dtype=object), x, deep=False) and equal(np.asarray(re_[0].ret, dtype=object), err, deep=False) and np.shape(re_[0].ret) == np.shape(err)
                ctx.ob(rule, UC + '::error_unit', '%s: the value and its error are both read back as written (same shape, same unit undone)' % t, bool(ok), node=efn, key=t + ' error round trip')
            except WouldRaise as e:
                ctx.ob(rule, loc, '%s: the writer/reader pair runs to completion' % t, False, str(e), node=mfn, key=t + ' runs')
            except Opaque as e:
                raise AnalysisError('uc.model/error_unit (%s): %s' % (t, e))
    ctx.floor(rule, n, 12)


def _box_obj(ctx, V, o, recip='STALE'):
    cls = ctx.fn(BOX, 'Box')
    return SymObj(cls, {'_Box__vects': V, '_Box__origin': o, '_Box__reciprocal_vects': recip}, 'self')


def _is_cleanup(s):
    if isinstance(s, ast.Assign) and len(s.targets) == 1 and isinstance(s.targets[0], ast.Subscript) and isinstance(s.value, ast.Constant) and s.value.value == 0.0:
        return 'isclose' in norm(s.targets[0].slice)
    return False


def box_model(ctx):
    fn = ctx.fn(BOX, 'Box.model')
    loc = BOX + '::Box.model'
    V = symarray('v', (3, 3), real=True)
    o = symarray('o', (3,), real=True)
    ev = _ev(ctx, BOX)
    try:
        p = [q for q in ev.run_fn(fn, [_box_obj(ctx, V.copy(), o.copy())], {'length_unit': 'nm'}) if q.done == 'return']
    except Opaque as e:
        raise AnalysisError('Box.model (write): %s' % e)
    ctx.need(len(p) == 1, 'Box.model() does not reduce to one path')
    m = p[0].ret
    ok = isinstance(m, dict) and list(m.keys()) == ['box'] and list(m['box'].keys()) == ['avect', 'bvect', 'cvect', 'origin']
    ctx.ob('BOX-MODEL', loc, 'the model has one box branch with avect, bvect, cvect, origin', ok, str(list(m.get('box', {}).keys()) if isinstance(m, dict) else m), node=fn)
    if not ok:
        return
    U = usym('nm')
    bad = []
    for k, want in (('avect', V[0]), ('bvect', V[1]), ('cvect', V[2]), ('origin', o)):
        t = m['box'][k]
        if t.get('unit') != 'nm' or not all(is_zero(sp.sympify(a) - b / U) for a, b in zip(t['value'], want)):
            bad.append(k)
    ctx.ob('BOX-MODEL', loc, 'each vector is stored as its three components in the requested length unit, under its own key', not bad, 'wrong: %s' % bad, node=fn)
    # read into a box that has been used before (reciprocal cache filled)
    old = _box_obj(ctx, symarray('w', (3, 3), real=True), symarray('q', (3,), real=True), recip='STALE')
    ev = _ev(ctx, BOX)
    try:
        p = ev.run_fn(fn, [old], {'model': m})
    except WouldRaise as e:
        ctx.ob('BOX-MODEL', loc, 'reading the model back runs to completion', False, str(e), node=fn, key='read runs')
        return
    except Opaque as e:
        raise AnalysisError('Box.model (read): %s' % e)
    live = [q for q in p if q.done == 'return']
    ctx.need(len(live) == 1, 'Box.model(model=...) does not reduce to one path')
    gv, go = old.attrs.get('_Box__vects'), old.attrs.get('_Box__origin')
    ok = gv is not None and np.shape(gv) == (3, 3) and equal(np.asarray(gv, dtype=object), V, deep=False) and go is not None and equal(np.asarray(go, dtype=object), o, deep=False)
    ctx.ob('BOX-MODEL', loc, 'reading the model back gives the written vectors and origin (unit undone)', bool(ok), node=fn, key='read values')
    ctx.ob('BOX-MODEL', loc, 'reading into a box that was used before resets its reciprocal-vector cache (the vectors go through the cell setter)', old.attrs.get('_Box__reciprocal_vects') is None,
           'cache after reading: %r' % (old.attrs.get('_Box__reciprocal_vects'),), node=fn, key='read cache')
    # the setter's round-off clean-up must not depend on the working units active when the model is read: the setter interpreted on concrete cells at three scales
    from . import c01
    c01.scale_free_cleanup(ctx, 'BOX-MODEL')


class AtomsM(PyStub):
    def __init__(self, props, natoms):
        self.props, self.natoms = props, natoms

    def prop(self, key=None, **kw):
        if key is None:
            return list(self.props)
        return self.props[key]


def _atoms_model(ctx, atoms, **kw):
    fn = ctx.fn(AT, 'Atoms.model')
    ev = _ev(ctx, AT)
    p = [q for q in ev.run_fn(fn, [atoms], kw) if q.done == 'return']
    ctx.need(len(p) == 1, 'Atoms.model does not reduce to one path')
    return p[0].ret


def _read_block(ctx, rel, qual, env, globals_):
    """evaluate only the `if model is not None:` block of a constructor on the given environment"""
    fn = ctx.fn(rel, qual)
    blocks = [s for s in fn.body if isinstance(s, ast.If) and norm(s.test) == 'model is not None']
    ctx.need(blocks, '%s::%s: the model-reading branch vanished' % (rel, qual))
    ev = _ev(ctx, rel, globals_)
    out = []
    for b in blocks:
        paths = ev.block([b], [Path(env)] if not out else out)
        out = [q for q in paths if q.done is None]
        ctx.need(len(out) == 1, '%s::%s: the model-reading branch does not reduce to one path' % (rel, qual))
    return out[0].env


def atoms_model(ctx):
    loc = AT + '::Atoms.model'
    fn = ctx.fn(AT, 'Atoms.model')
    P = symarray('p', (2, 3), real=True)
    props = {'atype': arr([1, 2]), 'pos': P, 'stress': symarray('s', (2, 3, 3), real=True), 'charge': symarray('c', (2,), real=True)}
    atoms = AtomsM(props, 2)
    try:
        m = _atoms_model(ctx, atoms, prop_unit={'atype': None, 'pos': 'nm', 'stress': 'GPa', 'charge': 'e'})
    except Opaque as e:
        raise AnalysisError('Atoms.model: %s' % e)
    ok = isinstance(m, dict) and list(m.keys()) == ['atoms'] and m['atoms'].get('natoms') == 2
    names = [pm['name'] for pm in m['atoms'].aslist('property')] if ok else None
    ctx.ob('ATOMS-MODEL', loc, 'the model records natoms and one property entry per requested property, in order', ok and names == ['atype', 'pos', 'stress', 'charge'], str(names), node=fn)
    if not ok:
        return
    units = {pm['name']: pm['data'].get('unit') for pm in m['atoms'].aslist('property')}
    ctx.ob('ATOMS-MODEL', loc, 'every property is stored with its own requested unit', units == {'atype': None, 'pos': 'nm', 'stress': 'GPa', 'charge': 'e'}, str(units), node=fn, key='units')
    # default unit of pos
    m2 = _atoms_model(ctx, atoms, prop_name=['pos', 'charge'])
    u2 = {pm['name']: pm['data'].get('unit') for pm in m2['atoms'].aslist('property')}
    ctx.ob('ATOMS-MODEL', loc, 'with no unit given positions are stored in angstrom and other properties without unit', u2 == {'pos': 'angstrom', 'charge': None}, str(u2), node=fn, key='default units')
    # the same default through a caller's dictionary: 'pos': None is documented to mean angstrom (a pos entry without unit would be read back in whatever the reader's working units are)
    m3 = _atoms_model(ctx, atoms, prop_unit={'pos': None, 'charge': None})
    u3 = {pm['name']: pm['data'].get('unit') for pm in m3['atoms'].aslist('property')}
    ctx.ob('ATOMS-MODEL', loc, "prop_unit={'pos': None, ...} given as a dictionary: positions are stored in angstrom all the same", u3 == {'pos': 'angstrom', 'charge': None}, str(u3), node=fn, key='default units dict')
    # read back: the model branch of the constructor
    env = _read_block(ctx, AT, 'Atoms.__init__', {'model': m, 'natoms': None, 'atype': None, 'pos': None, 'prop': None, 'kwargs': {}, 'self': None}, {})
    rp = env.get('prop')
    ok = env.get('natoms') == 2 and isinstance(rp, dict) and list(rp.keys()) == ['atype', 'pos', 'stress', 'charge'] and all(
        np.shape(rp[k]) == np.shape(props[k]) and equal(np.asarray(rp[k], dtype=object), np.asarray(props[k], dtype=object), deep=False) for k in props)
    ctx.ob('ATOMS-MODEL', AT + '::Atoms.__init__', 'Atoms(model=...) reads natoms and every property back under its name with shape and values restored (units undone)', bool(ok),
           str({k: np.shape(v) for k, v in rp.items()} if isinstance(rp, dict) else rp), node=ctx.fn(AT, 'Atoms.__init__'), key='read')


def _same_model(a, b):
    """deep equality of two models (dict-like nodes, lists, arrays, exact values)"""
    if isinstance(a, dict) and isinstance(b, dict):
        return list(a.keys()) == list(b.keys()) and all(_same_model(a[k], b[k]) for k in a)
    if isinstance(a, (list, tuple)) and isinstance(b, (list, tuple)):
        return len(a) == len(b) and all(_same_model(x, y) for x, y in zip(a, b))
    if isinstance(a, np.ndarray) or isinstance(b, np.ndarray):
        return isinstance(a, np.ndarray) and isinstance(b, np.ndarray) and a.shape == b.shape and all(_same_model(x, y) for x, y in zip(a.ravel().tolist(), b.ravel().tolist()))
    try:
        return bool(a == b)
    except Exception:
        return False


def system_model(ctx):
    loc = SYS + '::System.model'
    fn = ctx.fn(SYS, 'System.model')
    V = symarray('v', (3, 3), real=True)
    o = symarray('o', (3,), real=True)
    Vi = np.array(sp.Matrix(V.tolist()).inv().tolist(), dtype=object)

    class BoxM(PyStub):
        def __init__(self):
            self.calls = []

        def model(self, length_unit='angstrom', **kw):
            self.calls.append(length_unit)
            return {'box': ('BOXMODEL', length_unit)}

        def position_cartesian_to_relative(self, x):
            return (np.asarray(x, dtype=object) - o).dot(Vi)

        def position_relative_to_cartesian(self, s):
            return np.asarray(s, dtype=object).dot(V) + o
        reciprocal_vects = property(lambda self: Vi.T.copy())
        vects = property(lambda self: V.copy())
        origin = property(lambda self: o.copy())
    P = symarray('p', (2, 3), real=True)
    D = symarray('d', (2, 3), real=True)
    props = {'atype': arr([1, 2]), 'pos': P, 'disp': D}
    atoms = AtomsM(props, 2)

    class AtomsW(PyStub):
        natoms = 2
        natypes = 2
        atypes = (1, 2)            # the types in use: the system knows one more symbol than that (a type without atoms yet)
        atype = arr([1, 2])

        def model(self, **kw):
            return _atoms_model(ctx, atoms, **kw)
    n = 0
    SYMS = ('Al', None, 'Ni')
    for tag, masses, punit in (('all masses, positions scaled', (sp.Symbol('m1'), sp.Symbol('m2'), sp.Symbol('m3')), {'atype': None, 'pos': 'scaled', 'disp': 'nm'}),
                               ('one mass missing, positions in nm', (sp.Symbol('m1'), None, sp.Symbol('m3')), {'atype': None, 'pos': 'nm', 'disp': 'scaled'}),
                               ('first mass missing', (None, sp.Symbol('m2'), None), {'atype': None, 'pos': 'angstrom', 'disp': None}),
                               ('no masses', (None, None, None), {'atype': None, 'pos': 'scaled', 'disp': None})):
        n += 1
        box = BoxM()

        class PBC(PyStub):
            def tolist(self):
                return [True, False, True]
        me = SymObj(None, {'box': box, 'pbc': PBC(), 'symbols': SYMS, 'masses': masses, 'atoms': AtomsW(), 'natypes': 3}, 'self')
        ev = _ev(ctx, SYS)
        try:
            p = [q for q in ev.run_fn(fn, [me], {'box_unit': 'nm', 'prop_unit': dict(punit)}) if q.done == 'return']
        except WouldRaise as e:
            ctx.ob('SYSTEM-MODEL', loc, '%s: the writer runs to completion' % tag, False, str(e), node=fn, key=tag + ' runs')
            continue
        except Opaque as e:
            raise AnalysisError('System.model (%s): %s' % (tag, e))
        ctx.need(len(p) == 1, 'System.model does not reduce to one path (%s)' % tag)
        m = p[0].ret
        a = m.get('atomic-system') if isinstance(m, dict) else None
        ok = a is not None and a.get('box') == ('BOXMODEL', 'nm') and a.get('periodic-boundary-condition') == [True, False, True] and a.aslist('atom-type-symbol') == list(SYMS)
        ctx.ob('SYSTEM-MODEL', loc, '%s: box (in the requested unit), periodic flags and every symbol the system knows (also of a type without atoms yet) are written' % tag, bool(ok), str(list(a.keys()) if a is not None else m), node=fn, key=tag + ' header')
        if a is None:
            continue
        wm = a.aslist('atom-type-mass')
        ctx.ob('SYSTEM-MODEL', loc, '%s: masses are written (None entries in place) whenever any type has a mass, and omitted only when none has' % tag,
               wm == (list(masses) if any(x is not None for x in masses) else []), 'written %s for masses %s' % (wm, masses), node=fn, key=tag + ' masses')
        # read back: the model branch of System.__init__ and the scaled post-processing
        made = {}

        class AtomsR(PyStub):
            def __init__(self, view):
                self.view = view

            @property
            def pos(self):
                return self.view['pos']

            def prop(self, key=None, index=None, value=None, a_id=None):
                if value is None:
                    return list(self.view) if key is None else np.asarray(self.view[key], dtype=object).copy()
                self.view[key] = np.asarray(value, dtype=object)

        def mkBox(model=None, **kw):
            made['box_model'] = model
            return box

        def mkAtoms(model=None, **kw):
            env = _read_block(ctx, AT, 'Atoms.__init__', {'model': model, 'natoms': None, 'atype': None, 'pos': None, 'prop': None, 'kwargs': {}, 'self': None}, {})
            made['atoms'] = AtomsR(dict(env['prop']))
            return made['atoms']
        init = ctx.fn(SYS, 'System.__init__')
        AtomsR.natypes = 2
        AtomsR.natoms = 2

        class _SysG(PyStub):
            def _AtomsIndexer(self, host):
                return ('indexer', host)
        me2 = SymObj(ctx.fn(SYS, 'System'), {}, 'self')
        ev = _ev(ctx, SYS, {'Box': mkBox, 'Atoms': mkAtoms, 'System': _SysG(), 'aslist': lambda v: (list(v) if isinstance(v, (list, tuple)) else [v])})
        import copy as _copy
        m_before = _copy.deepcopy(m)
        try:
            q = [x for x in ev.run_fn(init, [me2], {'model': m}) if x.done == 'return']
            ctx.need(len(q) == 1, 'System(model=...) does not reduce to one path (%s)' % tag)
        except WouldRaise as e:
            ctx.ob('SYSTEM-MODEL', SYS + '::System.__init__', '%s: reading the model back runs to completion' % tag, False, str(e), node=init, key=tag + ' read runs')
            continue
        except Opaque as e:
            raise AnalysisError('System(model=) (%s): %s' % (tag, e))
        ctx.need('atoms' in made, 'System(model=...) does not build its atoms from the model (%s)' % tag)
        ctx.ob('SYSTEM-MODEL', SYS + '::System.__init__', '%s: reading leaves the model object as it was given (read twice, or read and then written out, it is still the same model)' % tag, _same_model(m, m_before), node=init, key=tag + ' read keeps model')
        e1 = {'pbc': me2.attrs.get('_System__pbc'), 'symbols': me2.attrs.get('_System__symbols'), 'masses': me2.attrs.get('_System__masses')}
        view = made['atoms'].view
        bad = [k for k in props if k not in view or np.shape(view[k]) != np.shape(props[k]) or not all(sp.simplify(a_ - b_) == 0 for a_, b_ in zip(np.ravel(view[k]), np.ravel(props[k])))]
        ctx.ob('SYSTEM-MODEL', SYS + '::System.__init__', '%s: every per-atom property read back equals the one written (box-relative storage converted back with the same box)' % tag, not bad,
               'differs: %s' % bad, node=init, key=tag + ' read props')
        okh = e1.get('pbc') is not None and [bool(x_) for x_ in e1['pbc']] == [True, False, True] and tuple(e1.get('symbols') or ()) == SYMS and tuple(e1.get('masses') or ()) == tuple(masses)
        ctx.ob('SYSTEM-MODEL', SYS + '::System.__init__', '%s: periodic flags, symbols and masses read back are those of the system' % tag, bool(okh),
               'pbc %s symbols %s masses %s' % (e1.get('pbc'), e1.get('symbols'), e1.get('masses')), node=init, key=tag + ' read header')
    ctx.floor('SYSTEM-MODEL', n, 4)
    # the defaults: a model written without naming a unit for the cell must still carry one (a cell stored as bare numbers is read back in whatever working units are active
    # then: 3 angstrom written, 3 nm read) -- both through System.model() and through the system_model writer
    box = BoxM()

    class PBC0(PyStub):
        def tolist(self):
            return [True, True, True]
    me = SymObj(None, {'box': box, 'pbc': PBC0(), 'symbols': SYMS, 'masses': (None, None, None), 'atoms': AtomsW(), 'natypes': 3}, 'self')
    try:
        pdef = [q for q in _ev(ctx, SYS).run_fn(fn, [me], {}) if q.done == 'return']
    except (Opaque, WouldRaise) as e:
        raise AnalysisError('System.model() with its defaults: %s' % e)
    bm = pdef[0].ret.get('atomic-system', {}).get('box') if len(pdef) == 1 and isinstance(pdef[0].ret, dict) else None
    ctx.ob('SYSTEM-MODEL', loc, 'System.model() with its defaults: the cell is stored with a unit of length (what is read back does not depend on the working units active then)', isinstance(bm, tuple) and bm[0] == 'BOXMODEL' and bm[1] is not None,
           'Box.model called with length_unit=%r' % (bm[1] if isinstance(bm, tuple) else bm,), node=fn, key='default box unit')
    dfn = ctx.fn(DSM, 'dump')
    seen_kw = []

    class Sdef(PyStub):
        def model(self, **kw):
            seen_kw.append(kw)
            return _dm()({'atomic-system': 1})
    try:
        [q for q in _ev(ctx, DSM).run_fn(dfn, [Sdef()], {}) if q.done == 'return']
    except (Opaque, WouldRaise) as e:
        raise AnalysisError('system_model.dump with its defaults: %s' % e)
    ctx.ob('SYSTEM-MODEL', DSM + '::dump', 'the system_model writer with its defaults: the cell is stored with a unit of length', len(seen_kw) == 1 and seen_kw[0].get('box_unit', 'absent') is not None,
           'System.model called with %s' % (seen_kw,), node=dfn, key='default box unit writer')


def ec_model(ctx):
    from .c11 import sym6
    fn = ctx.fn(EC, 'ElasticConstants.model')
    loc = EC + '::ElasticConstants.model'
    c = sym6('c', real=True)
    cls = ctx.fn(EC, 'ElasticConstants')

    class Norm(PyStub):
        def __init__(self, C, system):
            self.Cij, self.system = C, system
    seen = []
    me = SymObj(cls, {'_ElasticConstants__c_ij': c.copy(), 'normalized_as': lambda s: (seen.append(s) or Norm(c.copy(), s))}, 'self')
    ev = _ev(ctx, EC)
    try:
        p = [q for q in ev.run_fn(fn, [me], {'unit': 'GPa', 'crystal_system': 'cubic'}) if q.done == 'return']
    except Opaque as e:
        raise AnalysisError('ElasticConstants.model: %s' % e)
    ctx.need(len(p) == 1, 'ElasticConstants.model() does not reduce to one path')
    m = p[0].ret
    ok = isinstance(m, dict) and list(m.keys()) == ['elastic-constants'] and 'Cij' in m['elastic-constants'] and seen == ['cubic']
    ctx.ob('EC-MODEL', loc, 'the model stores the 6x6 matrix, normalised as the requested crystal system, under elastic-constants/Cij with its unit', ok and m['elastic-constants']['Cij'].get('unit') == 'GPa' and
           list(m['elastic-constants']['Cij'].get('shape', [])) == [6, 6], str(seen), node=fn)
    if not ok:
        return
    me2 = SymObj(cls, {'_ElasticConstants__c_ij': None}, 'self')
    ev = _ev(ctx, EC)
    from .c11 import _is_cleanup as ec_cleanup
    ev.skip = ec_cleanup
    try:
        ev.run_fn(fn, [me2], {'model': m})
    except Opaque as e:
        raise AnalysisError('ElasticConstants.model (read): %s' % e)
    got = me2.attrs.get('_ElasticConstants__c_ij')
    ctx.ob('EC-MODEL', loc, 'reading the model back restores the same 6x6 matrix', got is not None and np.shape(got) == (6, 6) and equal(np.asarray(got, dtype=object), c, deep=False), node=fn, key='read')


def fmt(ctx):
    fn = ctx.fn(DSM, 'dump')
    loc = DSM + '::dump'
    aliases = module_aliases(ctx.mod(DSM))

    class M(PyStub):
        def __init__(self, log):
            self.log = log

        def xml(self, **kw):
            self.log.append(('xml', kw))
            return 'XML'

        def json(self, **kw):
            self.log.append(('json', kw))
            return 'JSON'

    class F(PyStub):
        def write(self, t):
            pass
    n = 0
    for f, fmt_, want in ((None, None, 'model'), (None, 'XML', 'xml'), (None, 'json', 'json'), ('file', 'xml', 'xml'), ('file', 'JSON', 'json')):
        n += 1
        log = []
        mm = M(log)
        calls = []

        class S_(PyStub):
            def model(self, **kw):
                calls.append(kw)
                return mm
        ev = SymEval(aliases)
        fobj = F() if f else None
        try:
            p = [q for q in ev.run_fn(fn, [S_()], dict(f=fobj, format=fmt_, box_unit='nm', prop_unit={'pos': 'scaled'}, indent=2)) if q.done == 'return']
        except Opaque as e:
            raise AnalysisError('system_model.dump: %s' % e)
        ctx.need(len(p) == 1, 'system_model.dump does not reduce to one path')
        r = p[0].ret
        okc = len(calls) == 1 and calls[0].get('box_unit') == 'nm' and calls[0].get('prop_unit') == {'pos': 'scaled'}
        if want == 'model':
            ok = r is mm and not log
        else:
            ok = len(log) == 1 and log[0][0] == want and log[0][1].get('indent') == 2 and ((log[0][1].get('fp') is fobj) if f else 'fp' not in log[0][1] or log[0][1]['fp'] is None)
        ctx.ob('FORMAT', loc, 'f=%s format=%s: storage units reach System.model and the %s encoder is used' % ('stream' if f else None, fmt_, want), okc and ok, str(log), node=fn, key='%s %s' % (f, fmt_))
    ctx.floor('FORMAT', n, 5)
    # loader: finds the key, hands the branch to System(model=...), forwards symbols
    lfn = ctx.fn(LSM, 'load')
    DMc = _dm()
    made = []
    ev = SymEval(module_aliases(ctx.mod(LSM)))
    ev.globals = {'DM': DMc, 'System': lambda **kw: made.append(kw) or 'SYSTEM'}
    branch = DMc([('box', 'B'), ('atoms', 'A')])
    model = DMc([('record', DMc([('atomic-system', branch)]))])
    try:
        p = [q for q in ev.run_fn(lfn, [model], {'symbols': ('Al',)}) if q.done == 'return']
    except Opaque as e:
        raise AnalysisError('system_model.load: %s' % e)
    ok = len(p) == 1 and p[0].ret == 'SYSTEM' and len(made) == 1 and made[0].get('symbols') == ('Al',) and isinstance(made[0].get('model'), dict) and made[0]['model'].get('atomic-system') == branch
    ctx.ob('FORMAT', LSM + '::load', 'the atomic-system branch found anywhere in the model is handed to System(model=...) together with the caller\'s symbols', ok, str(made)[:200], node=lfn, key='load')
    p = SymEval(module_aliases(ctx.mod(LSM)))
    p.globals = {'DM': DMc}
    paths = p.run_fn(lfn, [DMc([('x', 1)])], {})
    ctx.ob('FORMAT', LSM + '::load', 'a model without the key is refused', not [q for q in paths if q.done == 'return'], node=lfn, key='load missing')


def _ec_normalized(ctx):
    """ElasticConstants.model(crystal_system=...) stores the tensor normalised as that system: a tensor that already has the system's form (all its independent constants,
    C16 of the tetragonal 4/m class included) must come through unchanged -- decided by the normalisation rule of the property that owns it"""
    from .c11 import normalized
    normalized(ctx)


def run(ctx):
    ctx.explanation = ('C10: each writer is evaluated on symbolic values and its reader on the writer\'s output (the real DataModelDict container holding symbols), and the composition is '
                       'compared with the identity: unit models for all ranks incl. non-contiguous views, Box (with cache reset on reading), Atoms, System (scaled storage, partial masses), '
                       'ElasticConstants; format routing of dump/load. Not decided: the third-party JSON/XML encoders and dtypes after the text round trip.')
    # reading a system model goes through System.__init__ with the symbols and masses of the file: lists longer than the atom types in use are kept in full
    from .c06 import construct_lists
    # the unit named in a model is evaluated by parse() when it is written and again when it is read, under other working units: the number stored is in that unit only
    # if the expression is evaluated with ordinary precedence (the rule of C09, run here on the same source)
    from . import c09 as _c09

    def _precedence(c):
        _c09._MOD[0] = c.mod(UC)
        _c09.precedence(c)
    # properties stored box-relative ('scaled') are converted by the cell when written and when read: the conversion pair of C01, any number of leading axes
    from .c01 import convert as box_convert
    ctx.run_rules([uc_model, box_model, atoms_model, system_model, ec_model, fmt, lambda c: construct_lists(c, 'SYSTEM-MODEL'), _ec_normalized, _precedence, box_convert,
                   lambda c: __import__('amverif.lints', fromlist=['x']).fresh_results(c, 'UC-MODEL', UC, floor=9, what='a value computed from the working units in force at the time of the call (a model is written under one set of working units and read under another)'),
                   # a value written without a unit, or a single number, goes through the same writer: array-like in, plain Python values in the model
                   lambda c: __import__('amverif.lints', fromlist=['x']).arraylike(c, 'ARRAY-LIKE', UC, floor=4, extra_converters=('get_in_units', 'set_in_units')),
                   lambda c: __import__('amverif.lints', fromlist=['x']).native_values(c, "NATIVE-VALUES", UC, "model", str_params=("units",), floor=3)])
