"""C20 Path integrators have their nominal order; string step structure.

Decided statically:
 * LINEAR-ORDER: one integrator step on y' = λy, extracted from the syntax tree with the rate function bound to
   the linear law, is y times the degree-p Taylor polynomial of exp(hλ) (p=1 Euler, p=4 Runge-Kutta).  For a
   matrix A all terms are polynomials in the single matrix hA, so the scalar identity is the matrix identity.
 * CDIFF: the central-difference gradient applied to a generic cubic polynomial equals the analytic gradient
   with an error that has no shift^0 and no shift^1 term (second order), component i stored in slot i.
 * DEFAULT-FEASIBLE: no anchored constructor rejects its own default argument (contradiction rule).
 * STRING-STEP: rate = -grad E; climbing rate = -grad E + 2 (grad E . tau) tau; unit tangents; strict interior
   maxima; at most `climbpoints` climbing images; integrator/tangent wiring of step().
Declined: convergence to minima and saddle (a limit statement about iterates).
"""
import ast

import numpy as np
import sympy as sp

from ..core import norm, calls_in, kwarg, walk_no_nested, AnalysisError
from ..symx import SymEval, Path, SymObj, PyStub, symarray, is_zero, is_arr, equal, Opaque, WouldRaise, module_aliases, arr
from .. import guards, dtypeflow

RK = 'atomman/mep/integrator/rungekutta.py'
EU = 'atomman/mep/integrator/euler.py'
CD = 'atomman/mep/gradient/central_difference.py'
BP = 'atomman/mep/BasePath.py'
ISM = 'atomman/mep/ISMPath.py'
INIT = 'atomman/mep/__init__.py'


def linear_order(ctx, rel, name, order):
    fn = ctx.fn(rel, name)
    y, h, lam = sp.symbols('y h lambda')
    ev = SymEval(module_aliases(ctx.mod(rel)))
    nargs = []

    def rate(c, **kw):
        nargs.append(c)
        return lam * c
    paths = ev.run_fn(fn, [rate, y, h], {})
    live = [p for p in paths if p.done == 'return']
    ctx.need(len(live) == 1, '%s::%s does not reduce to one return path' % (rel, name))
    got = sp.expand(live[0].ret)
    z = h * lam
    want = sp.expand(y * sum(z ** k / sp.factorial(k) for k in range(order + 1)))
    loc = '%s::%s' % (rel, name)
    diff = sp.expand(got - want)
    # name the first Taylor coefficient that is wrong
    detail = ''
    if diff != 0:
        poly = sp.Poly(sp.expand(got / y), h)
        coeffs = {k: poly.coeff_monomial(h ** k) for k in range(order + 2)}
        wantc = {k: lam ** k / sp.factorial(k) if k <= order else 0 for k in range(order + 2)}
        bad = [k for k in coeffs if sp.simplify(coeffs[k] - wantc[k]) != 0]
        detail = 'step on y\'=λy gives y*(%s); Taylor coefficient(s) of h^%s differ from λ^k/k! (got %s)' % (
            sp.expand(got / y), bad, [str(coeffs[k]) for k in bad])
    ctx.ob('LINEAR-ORDER', loc, 'one step on y\'=λy equals y·Σ_{k≤%d}(hλ)^k/k!' % order, diff == 0, detail, node=fn)
    ctx.ob('LINEAR-ORDER', loc, 'rate function evaluated %d time(s) per step' % (1 if order == 1 else 4), len(nargs) == (1 if order == 1 else 4),
           'evaluated %d times' % len(nargs), node=fn, key='stage count')
    # extra keyword arguments are forwarded to the rate function (documented)
    rcalls = calls_in(fn, 'ratefxn')
    ctx.ob('LINEAR-ORDER', loc, '**kwargs forwarded to every rate evaluation',
           all(any(k.arg is None for k in c.keywords) for c in rcalls) and len(rcalls) >= 1, node=fn, key='kwargs forwarded')


def pure_step(ctx):
    """integrators and the string step return new coordinates; they never write to the coordinates they were given"""
    from .. import effects
    n = 0
    for rel, q, params in ((EU, 'euler', {'coord'}), (RK, 'rungekutta', {'coord'}), (CD, 'central_difference', {'coord'}), (ISM, 'ISMPath.step', {'self'}), (ISM, 'ISMPath.interpolate_path', {'self'})):
        n += 1
        fn = ctx.fn(rel, q)
        # (what a user's rate function returns is not the integrator's to write into: it may be the argument itself (y' = y) or a buffer the function reuses)
        muts, eff = effects.param_mutations(fn, params, summaries={'ratefxn': ('alias', (0,)), 'fxn': ('fresh',), 'self.integratorfxn': ('fresh',), 'ISMPath': ('fresh',), 'CubicSpline': ('fresh',), 'aslist': ('fresh',),
                                                                  '.grad_energy': ('fresh',), '.interpolate_path': ('fresh',)})
        ctx.ob('PURE-STEP', '%s::%s' % (rel, q), 'the coordinates passed in (%s) are not written to: the result is a new array, so the caller can take another step from the same point' % ', '.join(sorted(params)),
               not muts, '; '.join('%s at line %d' % (w, nd.lineno) for nd, r, w in muts), node=muts[0][0] if muts else fn, key='pure %s' % q)
    ctx.floor('PURE-STEP', n, 5)


def cdiff(ctx):
    fn = ctx.fn(CD, 'central_difference')
    ev = SymEval(module_aliases(ctx.mod(CD)))
    n = 3
    a = symarray('a', (n,))
    q = symarray('q', (n, n))
    t = symarray('t', (n, n, n))
    x = symarray('x', (2, n))   # two points, three coordinates: leading shape is preserved
    sh = sp.Symbol('s', positive=True)

    seen_shapes = []

    def f(c):
        c = np.asarray(c, dtype=object)
        seen_shapes.append(c.shape)
        return np.einsum('i,...i->...', a, c) + np.einsum('ij,...i,...j->...', q, c, c) + np.einsum('ijk,...i,...j,...k->...', t, c, c, c)
    loc = CD + '::central_difference'
    try:
        paths = ev.run_fn(fn, [f, x, sh], {})
        refused = None
    except WouldRaise as e:
        paths, refused = [], str(e)
    ctx.ob('CDIFF', loc, 'coordinates of shape (2 points, 3 components) are accepted: one derivative per component of the last axis', refused is None, refused or '', node=fn, key='cdiff accepts (2, 3)')
    if refused is not None:
        return
    live = [p for p in paths if p.done == 'return']
    ctx.need(len(live) == 1, 'central_difference does not reduce to one path')
    g = live[0].ret
    ok_shape = hasattr(g, 'shape') and tuple(g.shape) == (2, n)
    ctx.ob('CDIFF', loc, 'gradient has the shape of coord', ok_shape, 'shape %s' % (getattr(g, 'shape', None),), node=fn)
    ctx.ob('CDIFF', loc, 'the function is only ever asked about coordinates of the shape of coord (an energy function written for one string of points is not handed a stack of strings)',
           bool(seen_shapes) and all(sh_ == (2, n) for sh_ in seen_shapes), 'shapes passed: %s' % sorted(set(seen_shapes)), node=fn, key='cdiff argument shape')
    if not ok_shape:
        return
    bad0, bad1 = [], []
    for p in range(2):
        fx = f(x[p])
        for i in range(n):
            err = sp.expand(g[p, i] - sp.diff(fx, x[p, i]))
            poly = sp.Poly(err, sh) if err != 0 else None
            c0 = poly.coeff_monomial(1) if poly is not None else 0
            c1 = poly.coeff_monomial(sh) if poly is not None else 0
            if sp.expand(c0) != 0:
                bad0.append((p, i))
            if sp.expand(c1) != 0:
                bad1.append((p, i))
    ctx.ob('CDIFF', loc, 'component i of the result is ∂f/∂x_i in the limit shift→0 (generic cubic, 2 points × 3 coordinates)', not bad0,
           'wrong at (point, component) %s' % bad0, node=fn)
    ctx.ob('CDIFF', loc, 'error has no term linear in shift (second-order accurate)', not bad1, 'linear error term at %s' % bad1, node=fn)
    # points on a grid: coordinates of shape (2, 3, 2) (and a square (2, 2, 2) grid, where a swap of the leading axes keeps the shape)
    for shape in ((2, 3, 2), (2, 2, 2)):
        xg = symarray('y', shape)
        m = shape[-1]

        def fg(c):
            c = np.asarray(c, dtype=object)
            return np.einsum('i,...i->...', a[:m], c) + np.einsum('ij,...i,...j->...', q[:m, :m], c, c)
        try:
            live = [p for p in SymEval(module_aliases(ctx.mod(CD))).run_fn(fn, [fg, xg, sh], {}) if p.done == 'return']
        except WouldRaise as e:
            ctx.ob('CDIFF', loc, 'coordinates of shape %s (points on a grid) are accepted' % (shape,), False, str(e), node=fn, key='cdiff grid accepts %s' % (shape,))
            continue
        except Opaque as e:
            raise AnalysisError('central_difference on a %s grid: %s' % (shape, e))
        ctx.need(len(live) == 1, 'central_difference does not reduce to one path (grid)')
        gg = live[0].ret
        ok = hasattr(gg, 'shape') and tuple(gg.shape) == shape
        if ok:
            for idx in np.ndindex(*shape[:-1]):
                fx = fg(xg[idx])
                for i in range(m):
                    if sp.expand(sp.limit(sp.expand(gg[idx + (i,)] - sp.diff(fx, xg[idx + (i,)])), sh, 0)) != 0:
                        ok = False
        ctx.ob('CDIFF', loc, 'coordinates of shape %s (points on a grid): the gradient has the shape of coord and entry [..., i] is ∂f/∂x_i at that grid point (leading axes in the caller\'s order)' % (shape,), bool(ok),
               'shape %s' % (getattr(gg, 'shape', None),), node=fn, key='cdiff grid %s' % (shape,))


def default_feasible(ctx):
    n = 0
    for rel, q in ((BP, 'BasePath.__init__'), (INIT, 'create_path'), (ISM, 'ISMPath.step'), (ISM, 'ISMPath.relax'),
                   (CD, 'central_difference')):
        fn = ctx.fn(rel, q)
        hits = guards.default_contradiction(fn)
        n += 1
        ctx.ob('DEFAULT-FEASIBLE', '%s::%s' % (rel, q), 'no parameter default is rejected by a later test on that parameter', not hits,
               '; '.join('default %s=%r reaches `%s` via %s' % (p, v, norm(node)[:60], ' -> '.join(tr)) for p, v, node, tr in hits),
               node=hits[0][2] if hits else fn)
    # create_path forwards its defaults unchanged to the constructor, so the constructor's defaults must be feasible with None
    # create_path interpreted with a recording constructor: what it passes is bound to the constructor's own parameter list (positional or by keyword)
    cp = ctx.fn(INIT, 'create_path')
    init = ctx.fn(BP, 'BasePath.__init__')
    pnames = [a.arg for a in init.args.args[1:]]
    made = []

    def ctor(*a, **k):
        bound = dict(zip(pnames, a))
        bound.update(k)
        made.append(bound)
        return 'PATH'
    ev = SymEval(module_aliases(ctx.mod(INIT)))
    ev.globals = {'ISMPath': ctor}
    for style in ('ISM', 'improved_string_method'):
        made.clear()
        try:
            r = [q for q in ev.run_fn(cp, ['COORD', 'EFN'], dict(gradientfxn='GFN', gradientkwargs='GKW', integratorfxn='IFN', style=style)) if q.done == 'return']
        except (Opaque, WouldRaise) as e:
            raise AnalysisError('create_path(style=%r): %s' % (style, e))
        ok = len(r) == 1 and r[0].ret == 'PATH' and len(made) == 1 and made[0].get('coord') == 'COORD' and made[0].get('energyfxn') == 'EFN' and made[0].get('gradientfxn') == 'GFN' \
            and made[0].get('gradientkwargs') == 'GKW' and made[0].get('integratorfxn') == 'IFN'
        ctx.ob('DEFAULT-FEASIBLE', INIT + '::create_path', 'style %r: coordinates, energy function, gradient function, gradient settings and integrator all reach the path constructor\'s parameters of those names' % style, bool(ok),
               str(made), node=cp, key='create_path forwards ' + style)
    try:
        acc = bool([q for q in ev.run_fn(cp, ['COORD', 'EFN'], dict(style='neb')) if q.done == 'return'])
    except WouldRaise:
        acc = False
    ctx.ob('DEFAULT-FEASIBLE', INIT + '::create_path', 'an unknown style is refused', not acc, node=cp, key='create_path style')
    ctx.floor('DEFAULT-FEASIBLE', n, 5)


def string_step(ctx):
    mod = ctx.mod(ISM)
    step = ctx.fn(ISM, 'ISMPath.step')
    loc = ISM + '::ISMPath.step'
    aliases = module_aliases(mod)
    # the rate functions are decided where they act: step_model advances a whole model path and compares the images the integrator produces
    ev = SymEval(aliases)
    # unit tangent: evaluate on a symbolic 3-point path in the plane
    ut = ctx.fn(ISM, 'ISMPath.unittangent')
    c = symarray('c', (3, 2), real=True)
    so = SymObj(None, {'coord': c}, 'self')
    paths = ev.run_fn(ut, [so], {})
    live = [p for p in paths if p.done == 'return']
    ctx.need(len(live) == 1, 'unittangent does not reduce to one path')
    T = live[0].ret
    d0, d1 = c[1] - c[0], c[2] - c[1]
    nrm = lambda v: sp.sqrt(v[0] ** 2 + v[1] ** 2)
    u0, u1 = d0 / nrm(d0), d1 / nrm(d1)
    mid = u0 + u1
    locu = ISM + '::ISMPath.unittangent'
    ctx.ob('STRING-STEP', locu, 'end tangents are the unit forward/backward differences', equal(T[0], u0) and equal(T[2], u1), node=ut)
    ctx.ob('STRING-STEP', locu, 'interior tangent is the normalised sum of the adjacent unit differences',
           is_zero(sp.simplify(T[1][0] * mid[1] - T[1][1] * mid[0])) and is_zero(sp.simplify(T[1][0] ** 2 + T[1][1] ** 2 - 1)), node=ut)


def step_model(ctx):
    """ISMPath.step evaluated as a whole on a symbolic four-image path with recording stubs"""
    cls = ctx.fn(ISM, 'ISMPath')
    step = ctx.fn(ISM, 'ISMPath.step')
    loc = ISM + '::ISMPath.step'
    aliases = module_aliases(ctx.mod(ISM))
    c = symarray('c', (4, 2), real=True)
    h = sp.Symbol('h', positive=True)
    G = lambda row, j: sp.Function('g%d' % j)(*row)
    for tag, climb in (('plain step', None), ('climbing step, image 2', 2)):
        made, icalls = [], []

        glog = []

        def grad(coord, **k):
            return np.array([[G(row, j) for j in range(2)] for row in np.asarray(coord, dtype=object)], dtype=object)

        def GFN(efn, coord, **k):
            glog.append((efn, dict(k)))
            return grad(coord)

        def midpoint(rate, c0, timestep, **kw):
            # a two-stage integrator: the second stage evaluates the rate away from the starting images, so a rate that ignores its argument shows
            c0 = np.asarray(c0, dtype=object)
            return c0 + timestep * rate(c0 + timestep * rate(c0, **kw) / 2, **kw)

        def integ(rate, coord, timestep, **kw):
            icalls.append((np.array(coord, dtype=object), timestep, dict(kw)))
            return midpoint(rate, coord, timestep, **kw)

        def mk(coord, energyfxn=None, gradientfxn='cdiff', gradientkwargs=None, integratorfxn='rk', **extra):
            o = SymObj(cls, {'coord': np.asarray(coord, dtype=object), 'energyfxn': energyfxn, 'gradientfxn': gradientfxn, 'gradientkwargs': gradientkwargs if gradientkwargs is not None else {},
                             'integratorfxn': integratorfxn, 'arccoord': arr([0] + [sp.Symbol('s%d' % i, positive=True) for i in range(1, len(coord))])}, 'path%d' % len(made))
            made.append(o)
            return o

        class Spline(PyStub):
            def __init__(self, a, y):
                self.a, self.y = a, y

            def __call__(self, x):
                self.x = np.array(np.ravel(x), dtype=object)
                return np.array([[sp.Function('spl%d' % j)(xi) for j in range(2)] for xi in np.ravel(x)], dtype=object)
        splines = []
        tang = symarray('tau', (4, 2), real=True)
        selfobj = SymObj(cls, {'coord': c.copy(), 'energyfxn': 'EFN', 'gradientfxn': GFN, 'gradientkwargs': {'shift': 'SHIFT'}, 'integratorfxn': integ, 'unittangent': tang,
                               'default_timestep': sp.Symbol('h0', positive=True)}, 'self', mro=(ctx.fn(BP, 'BasePath'),))
        ev = SymEval(aliases)
        ev.globals = {'ISMPath': mk, 'CubicSpline': lambda a, y: (splines.append(Spline(a, y)) or splines[-1]), 'aslist': lambda v: list(v) if isinstance(v, (list, tuple)) else ([int(x) for x in np.ravel(v)] if is_arr(v) else [v])}
        ev.np_override = {'numpy.linspace': lambda a, b, n_: arr([a + (b - a) * sp.Rational(i, int(n_) - 1) for i in range(int(n_))]), 'numpy.any': lambda v: False}
        try:
            r = [q for q in ev.run_fn(step, [selfobj], dict(timestep=h, climbindex=climb)) if q.done == 'return']
        except (Opaque, WouldRaise) as e:
            raise AnalysisError('ISMPath.step on the model path (%s): %s' % (tag, e))
        ctx.need(len(r) == 1, 'ISMPath.step does not reduce to one path (%s)' % tag)
        out = r[0].ret
        want_i = midpoint(lambda cc: -grad(cc), c, h)
        if climb is not None:
            def climb_w(cc, t):
                g_ = grad(cc)
                return np.array([-g_[r_] + 2 * sum(g_[r_, j] * t[r_, j] for j in range(2)) * t[r_] for r_ in range(len(g_))], dtype=object)
            want_i = want_i.copy()
            want_i[climb] = midpoint(lambda cc: climb_w(cc, tang[[climb]]), c[[climb]], h)[0]
        inter = made[0] if made else None
        ok = inter is not None and equal(inter.attrs['coord'], want_i)
        ctx.ob('STRING-STEP', loc, '%s: images are advanced by the integrator from their own coordinates along -grad E%s with the given timestep, the rate being evaluated at the coordinates the integrator asks about at every stage' %
               (tag, '' if climb is None else ' (the climbing image along -grad E + 2 (grad E·τ) τ with its own tangent)'), bool(ok), node=step, key='model advance ' + tag)
        ctx.ob('STRING-STEP', loc, '%s: every gradient is taken of the path\'s energy function with the path\'s gradient settings' % tag, bool(glog) and all(e_ == 'EFN' and k_ == {'shift': 'SHIFT'} for e_, k_ in glog), node=step, key='model gradient ' + tag)
        ok = isinstance(out, SymObj) and out is made[-1] and len(made) == 2 and out.attrs['energyfxn'] == 'EFN' and out.attrs['gradientfxn'] is GFN and out.attrs['gradientkwargs'] == {'shift': 'SHIFT'} \
            and inter.attrs['energyfxn'] == 'EFN' and inter.attrs['gradientfxn'] is GFN and inter.attrs['gradientkwargs'] == {'shift': 'SHIFT'}
        ctx.ob('STRING-STEP', loc, '%s: the returned path evaluates energies and gradients with the functions and gradient settings of the path the step was taken from' % tag, bool(ok),
               'returned path: energy %s, gradient %s %s' % ((out.attrs.get('energyfxn'), out.attrs.get('gradientfxn'), out.attrs.get('gradientkwargs')) if isinstance(out, SymObj) else (None, None, None)), node=step, key='model settings ' + tag)
        ok = len(splines) == 1 and inter is not None and equal(np.asarray(splines[0].y, dtype=object), inter.attrs['coord']) and equal(np.asarray(splines[0].a, dtype=object), inter.attrs['arccoord'])
        ctx.ob('STRING-STEP', loc, '%s: the new images are interpolated along the advanced string (spline through the advanced images over their arc lengths)' % tag, bool(ok), node=step, key='model spline ' + tag)
        ctx.ob('STRING-STEP', loc, '%s: the path the step was taken from keeps its coordinates' % tag, equal(selfobj.attrs['coord'], c), node=step, key='model operand ' + tag)
        sA = [0] + [sp.Symbol('s%d' % i, positive=True) for i in range(1, 4)]
        if climb is None:
            wantx = [sA[0] + (sA[3] - sA[0]) * sp.Rational(i, 3) for i in range(4)]
        else:
            wantx = [sA[0] + (sA[2] - sA[0]) * sp.Rational(i, 2) for i in range(3)] + [sA[3]]
        got_x = getattr(splines[0], 'x', None) if splines else None
        ctx.ob('STRING-STEP', loc, '%s: images are re-spaced evenly in arc length within each segment (whole string, or start→climbing image→end), every segment keeping its end points and its number of images' % tag,
               got_x is not None and len(got_x) == 4 and all(is_zero(sp.simplify(a_ - b_)) for a_, b_ in zip(got_x, wantx)), str(got_x), node=step, key='model respace ' + tag)


def relax_model(ctx):
    """ISMPath.relax interpreted with a recording step(): which steps are taken, from which path, with which climbing images, when it stops"""
    cls = ctx.fn(ISM, 'ISMPath')
    relax = ctx.fn(ISM, 'ISMPath.relax')
    loc = ISM + '::ISMPath.relax'
    aliases = module_aliases(ctx.mod(ISM))
    R = sp.Rational
    C0 = np.array([[R(0), R(0)], [R(1), R(0)], [R(2), R(0)]], dtype=object)
    D = np.array([[R(0), R(1)], [R(0), R(0)], [R(0), R(-1, 2)]], dtype=object)
    EN = [0, 2, 2, 1, 3, 2, 5, 4, 0]      # a plateau (not a maximum), two strict interior maxima at 4 and 6

    def scenario(relaxsteps, climbsteps, tolerance, climbpoints, EN=EN):
        calls = []
        paths = {}

        def mkpath(k):
            def step(timestep=None, climbindex=None, _k=k):
                calls.append((_k, timestep, None if climbindex is None else [int(v) for v in np.ravel(climbindex)]))
                return mkpath(_k + 1)
            o = SymObj(cls, {'coord': C0 + (1 - R(1, 2 ** k)) * D, 'step': step, 'energy': (lambda _k=k: arr([R(e) for e in EN])), 'default_timestep': R(1, 100), 'default_tolerance': R(1, 10 ** 6)}, 'path%d' % k)
            paths[k] = o
            return o

        class T(PyStub):
            def time(self):
                return sp.Integer(0)
        ev = SymEval(aliases)
        ev.globals = {'time': T()}
        try:
            r = [q for q in ev.run_fn(relax, [mkpath(0)], dict(relaxsteps=relaxsteps, climbsteps=climbsteps, timestep=sp.Integer(1), tolerance=tolerance, climbpoints=climbpoints, verbose=False)) if q.done == 'return']
        except WouldRaise as e:
            # the call certainly raises on this budget: a failed obligation, reported with the reason
            return [('raises', str(e)[:160], None)], None, {}
        except Opaque as e:
            raise AnalysisError('ISMPath.relax on the model path: %s' % e)
        ctx.need(len(r) == 1, 'ISMPath.relax does not reduce to one path')
        return calls, r[0].ret, paths
    # displacement per unit time of step k -> k+1 is 2^-(k+1)
    for tag, rs, cs, tol, cp, want in (('stops each phase at the tolerance', 5, 3, R(1, 10), 1, [(0, None), (1, None), (2, None), (3, None), (4, [4])]),
                                       ('tolerance never met: every step of both budgets taken', 3, 2, R(0), 2, [(0, None), (1, None), (2, None), (3, [4, 6]), (4, [4, 6])]),
                                       ('no relaxation budget', 0, 2, R(0), 5, [(0, [4, 6]), (1, [4, 6])]),
                                       ('no budget at all', 0, 0, R(1), 1, [])):
        calls, ret, paths = scenario(rs, cs, tol, cp)
        got = [(k, ci) for k, ts, ci in calls]
        ok = got == want and all(ts == 1 for k, ts, ci in calls) and ret is paths.get(len(want))
        ctx.ob('STRING-STEP', loc, '%s: relaxation steps do not climb, climbing steps pass the strict interior energy maxima of the relaxed string (at most `climbpoints`, end images never), each step starts from the path the '
               'previous one returned, a phase stops when the largest image displacement per unit time falls below the tolerance, and the last path is returned' % tag, bool(ok), 'steps taken %s' % got, node=relax, key='relax ' + tag)


    # a string whose end images are still uphill of their neighbours when climbing starts (the ends relax last): an end is never a climbing image
    for tag, en, cp, want in (('both ends above their neighbours, one climbing point', [3, 1, 4, 1, 2], 1, [(0, [2]), (1, [2])]), ('first end above its neighbour, room for more climbing points than there are maxima', [5, 1, 2, 1, 0], 3, [(0, [2]), (1, [2])]),
                              ('last end the highest image', [0, 1, 3, 2, 6], 2, [(0, [2]), (1, [2])])):
        calls, ret, paths = scenario(0, 2, R(0), cp, EN=en)
        got = [(k, ci) for k, ts, ci in calls]
        ctx.ob('STRING-STEP', loc, '%s: only interior images that are higher than both neighbours climb (an end image stays a basin end however high it still is)' % tag, got == want, 'steps taken %s' % got, node=relax, key='relax ends ' + tag[:30])


def relax_criterion(ctx):
    """both phases of relax() stop on the same quantity, the largest image displacement *per unit time* (for the climbing image that is |grad E| at the saddle): a model
    string whose displacements restart when climbing begins, stepped with timestep 1/4, tells the rate from the raw displacement in either loop"""
    cls = ctx.fn(ISM, 'ISMPath')
    relax = ctx.fn(ISM, 'ISMPath.relax')
    loc = ISM + '::ISMPath.relax'
    aliases = module_aliases(ctx.mod(ISM))
    R = sp.Rational
    C0 = np.array([[R(0), R(0)], [R(1), R(0)], [R(2), R(0)]], dtype=object)
    D = np.array([[R(0), R(1)], [R(0), R(0)], [R(0), R(-1, 2)]], dtype=object)
    EN = [0, 1, 3, 1, 0]
    h = R(1, 4)
    calls = []

    def mkpath(s_, nr, nc):
        def step(timestep=None, climbindex=None):
            calls.append((timestep, None if climbindex is None else [int(v) for v in np.ravel(climbindex)]))
            if climbindex is None:
                return mkpath(s_ + R(1, 2 ** (nr + 1)), nr + 1, nc)        # relaxation: displacements 1/2, 1/4, 1/8, ...
            return mkpath(s_ + R(1, 2 ** (nc + 4)), nr, nc + 1)             # climbing: displacements restart at 1/16, 1/32, ...
        return SymObj(cls, {'coord': C0 + s_ * D, 'step': step, 'energy': (lambda: arr([R(e) for e in EN])), 'default_timestep': R(1, 100), 'default_tolerance': R(1, 10 ** 6)}, 'path')

    class T(PyStub):
        def time(self):
            return sp.Integer(0)
    ev = SymEval(aliases)
    ev.globals = {'time': T()}
    try:
        r = [q for q in ev.run_fn(relax, [mkpath(R(0), 0, 0)], dict(relaxsteps=20, climbsteps=20, timestep=h, tolerance=R(1, 10), climbpoints=1, verbose=False)) if q.done == 'return']
    except (Opaque, WouldRaise) as e:
        raise AnalysisError('ISMPath.relax on the model path (timestep 1/4): %s' % e)
    ctx.need(len(r) == 1, 'ISMPath.relax does not reduce to one path (timestep 1/4)')
    nrel = len([c for c in calls if c[1] is None])
    nclimb = len([c for c in calls if c[1] is not None])
    # rates: relaxation 2, 1, 1/2, 1/4, 1/8, 1/16 (< 1/10 at the sixth step); climbing 1/4, 1/8, 1/16 (< 1/10 at the third step)
    ctx.ob('STRING-STEP', loc, 'timestep 1/4, tolerance 1/10: the relaxation phase stops when the displacement per unit time (not the raw displacement) falls below the tolerance: six steps', nrel == 6, '%d relaxation steps' % nrel,
           node=relax, key='relax criterion plain')
    ctx.ob('STRING-STEP', loc, 'timestep 1/4, tolerance 1/10: the climbing phase stops on the same quantity, the displacement per unit time: three climbing steps', nclimb == 3, '%d climbing steps' % nclimb,
           node=relax, key='relax criterion climbing')
    ctx.ob('STRING-STEP', loc, 'timestep 1/4: every step is taken with the requested timestep', all(c[0] == h for c in calls) and bool(calls), node=relax, key='relax criterion timestep')


def float_buffers(ctx):
    """gradients and tangents are written into buffers; the buffers are float for coordinates given as whole numbers too"""
    dtypeflow.float_buffers(ctx, 'FLOAT-BUFFERS', CD, 'central_difference', floor=1, what='the difference quotients', none_ok=True)
    base = dtypeflow.class_attr_types(ctx.fn('atomman/mep/BasePath.py', 'BasePath'))
    dtypeflow.float_buffers(ctx, 'FLOAT-BUFFERS', ISM, 'ISMPath.unittangent', floor=3, attrs=base, what='the unit difference vectors')


def rate_type(ctx):
    """one step is coord + h * rate in the element type numpy promotes to: nothing inside the integrators is cast to the element type of the coordinates the caller gave
    (whole-number coordinates -- an integer array, a list of ints -- would truncate the rate, and the step would no longer be the Taylor polynomial applied to y)"""
    n = 0
    for rel, q in ((EU, 'euler'), (RK, 'rungekutta')):
        fn = ctx.fn(rel, q)
        n += 1
        bad = []
        for c in ast.walk(fn):
            if not isinstance(c, ast.Call):
                continue
            from_coord = lambda e: any(isinstance(x, ast.Name) and x.id == 'coord' for x in ast.walk(e))
            for k in c.keywords:
                if k.arg == 'dtype' and from_coord(k.value):
                    bad.append(c)
            if isinstance(c.func, ast.Attribute) and c.func.attr == 'astype' and any(from_coord(a) for a in list(c.args) + [k.value for k in c.keywords]):
                bad.append(c)
        ctx.ob('RATE-TYPE', '%s::%s' % (rel, q), 'no value inside the step is cast to the element type of the coordinates passed in (dtype=/astype taken from coord)', not bad,
               '; '.join('%s at line %d' % (norm(b)[:80], b.lineno) for b in bad), node=bad[0] if bad else fn, key='rate type %s' % q)
    ctx.floor('RATE-TYPE', n, 2)


def named_functions(ctx):
    """the setters that accept a function by name: each documented name selects the function of that name ('euler' the Euler step, 'rk' / 'rungekutta' the Runge-Kutta
    step, 'cdiff' / 'central_difference' the central difference), a callable is kept as given, anything else is refused"""
    from ..symx import SymObj
    cls = ctx.fn(BP, 'BasePath')

    class Ns(PyStub):
        def __init__(self, names):
            for n_ in names:
                setattr(self, n_, ('FUNCTION', n_))
    table = (('integratorfxn', '_BasePath__integratorfxn', 'integrator', Ns(['euler', 'rungekutta']), {'euler': 'euler', 'rk': 'rungekutta', 'rungekutta': 'rungekutta'}),
             ('gradientfxn', '_BasePath__gradientfxn', 'gradient', Ns(['central_difference']), {'cdiff': 'central_difference', 'central_difference': 'central_difference'}))
    n = 0
    for prop, attr, modname, ns, names in table:
        fn = ctx.fn(BP, 'BasePath.' + prop, setter=True)
        loc = BP + '::BasePath.%s.setter' % prop

        def run_(value):
            obj = SymObj(cls, {}, 'self')
            ev = SymEval(module_aliases(ctx.mod(BP)))
            ev.globals = {modname: ns, 'callable': lambda v: callable(v) and not isinstance(v, str)}
            try:
                live = [q for q in ev.run_fn(fn, [obj, value], {}) if q.done == 'return']
            except WouldRaise:
                return 'refused'
            except Opaque as e:
                raise AnalysisError('BasePath.%s setter (%r): %s' % (prop, value, e))
            return obj.attrs.get(attr, 'nothing stored') if live else 'refused'
        for name, want in sorted(names.items()):
            got = run_(name)
            n += 1
            ctx.ob('NAMED-FUNCTIONS', loc, "%s = '%s' selects %s.%s" % (prop, name, modname, want), got == ('FUNCTION', want), 'selected %r' % (got,), node=fn, key='%s %s' % (prop, name))
        f = lambda *a, **k: None
        n += 1
        ctx.ob('NAMED-FUNCTIONS', loc, '%s given as a function is kept as given' % prop, run_(f) is f, node=fn, key='%s callable' % prop)
        n += 1
        ctx.ob('NAMED-FUNCTIONS', loc, '%s given as an unknown name or as a number is refused' % prop, run_('no_such_style') == 'refused' and run_(sp.Integer(3)) == 'refused', node=fn, key='%s refusal' % prop)
    ctx.floor('NAMED-FUNCTIONS', n, 9)


def run(ctx):
    ctx.explanation = ('C20: integrator update formulas are extracted from the syntax tree with the rate function bound to the linear law '
                       'and compared, as polynomials in h·λ, with the Taylor polynomial of exp; the central difference is applied to a generic '
                       'cubic and its error expanded in the step; default-argument feasibility is a contradiction rule on the constructors; '
                       'the string step\'s rate laws, tangents and image selection are extracted and compared with the documented formulas. '
                       'Not decided: convergence to the minima/saddle.')
    ctx.run_rules([lambda c: linear_order(c, EU, 'euler', 1), lambda c: linear_order(c, RK, 'rungekutta', 4), cdiff, default_feasible, string_step, pure_step, step_model, relax_model, relax_criterion, float_buffers, rate_type, named_functions])
