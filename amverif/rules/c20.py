"""C20 Path integrators have their nominal order; string step structure.

Decided statically:
 * LINEAR-ORDER: one integrator step on y' = λy, extracted from the syntax tree with the rate function bound to
   the linear law, is y times the degree-p Taylor polynomial of exp(hλ) (p=1 Euler, p=4 Runge-Kutta).  For a
   matrix A all terms are polynomials in the single matrix hA, so the scalar identity is the matrix identity.
 * CDIFF: the central-difference gradient applied to a generic cubic polynomial equals the analytic gradient
   with an error that has no shift^0 and no shift^1 term (second order), component i stored in slot i.
 * DEFAULT-FEASIBLE: no anchored constructor rejects its own default argument (contradiction rule).
 * STRING-STEP: rate = -grad E; climbing rate = -grad E + 2 (grad E . tau) tau; unit tangents; strict interior
   maxima; at most `climbpoints` climbing images; integrator/tangent wiring of step().
Declined: convergence to minima and saddle (a limit statement about iterates).
"""
import ast

import numpy as np
import sympy as sp

from ..core import norm, calls_in, kwarg, walk_no_nested, AnalysisError
from ..symx import SymEval, Path, SymObj, PyStub, symarray, is_zero, is_arr, equal, Opaque, WouldRaise, module_aliases, arr
from .. import guards

RK = 'atomman/mep/integrator/rungekutta.py'
EU = 'atomman/mep/integrator/euler.py'
CD = 'atomman/mep/gradient/central_difference.py'
BP = 'atomman/mep/BasePath.py'
ISM = 'atomman/mep/ISMPath.py'
INIT = 'atomman/mep/__init__.py'


def linear_order(ctx, rel, name, order):
    fn = ctx.fn(rel, name)
    y, h, lam = sp.symbols('y h lambda')
    ev = SymEval(module_aliases(ctx.mod(rel)))
    nargs = []

    def rate(c, **kw):
        nargs.append(c)
        return lam * c
    paths = ev.run_fn(fn, [rate, y, h], {})
    live = [p for p in paths if p.done == 'return']
    ctx.need(len(live) == 1, '%s::%s does not reduce to one return path' % (rel, name))
    got = sp.expand(live[0].ret)
    z = h * lam
    want = sp.expand(y * sum(z ** k / sp.factorial(k) for k in range(order + 1)))
    loc = '%s::%s' % (rel, name)
    diff = sp.expand(got - want)
    # name the first Taylor coefficient that is wrong
    detail = ''
    if diff != 0:
        poly = sp.Poly(sp.expand(got / y), h)
        coeffs = {k: poly.coeff_monomial(h ** k) for k in range(order + 2)}
        wantc = {k: lam ** k / sp.factorial(k) if k <= order else 0 for k in range(order + 2)}
        bad = [k for k in coeffs if sp.simplify(coeffs[k] - wantc[k]) != 0]
        detail = 'step on y\'=λy gives y*(%s); Taylor coefficient(s) of h^%s differ from λ^k/k! (got %s)' % (
            sp.expand(got / y), bad, [str(coeffs[k]) for k in bad])
    ctx.ob('LINEAR-ORDER', loc, 'one step on y\'=λy equals y·Σ_{k≤%d}(hλ)^k/k!' % order, diff == 0, detail, node=fn)
    ctx.ob('LINEAR-ORDER', loc, 'rate function evaluated %d time(s) per step' % (1 if order == 1 else 4), len(nargs) == (1 if order == 1 else 4),
           'evaluated %d times' % len(nargs), node=fn, key='stage count')
    # extra keyword arguments are forwarded to the rate function (documented)
    rcalls = calls_in(fn, 'ratefxn')
    ctx.ob('LINEAR-ORDER', loc, '**kwargs forwarded to every rate evaluation',
           all(any(k.arg is None for k in c.keywords) for c in rcalls) and len(rcalls) >= 1, node=fn, key='kwargs forwarded')


def pure_step(ctx):
    """integrators and the string step return new coordinates; they never write to the coordinates they were given"""
    from .. import effects
    n = 0
    for rel, q, params in ((EU, 'euler', {'coord'}), (RK, 'rungekutta', {'coord'}), (CD, 'central_difference', {'coord'}), (ISM, 'ISMPath.step', {'self'}), (ISM, 'ISMPath.interpolate_path', {'self'})):
        n += 1
        fn = ctx.fn(rel, q)
        muts, eff = effects.param_mutations(fn, params, summaries={'ratefxn': ('fresh',), 'fxn': ('fresh',), 'self.integratorfxn': ('fresh',), 'ISMPath': ('fresh',), 'CubicSpline': ('fresh',), 'aslist': ('fresh',),
                                                                  '.grad_energy': ('fresh',), '.interpolate_path': ('fresh',)})
        ctx.ob('PURE-STEP', '%s::%s' % (rel, q), 'the coordinates passed in (%s) are not written to: the result is a new array, so the caller can take another step from the same point' % ', '.join(sorted(params)),
               not muts, '; '.join('%s at line %d' % (w, nd.lineno) for nd, r, w in muts), node=muts[0][0] if muts else fn, key='pure %s' % q)
    ctx.floor('PURE-STEP', n, 5)


def cdiff(ctx):
    fn = ctx.fn(CD, 'central_difference')
    ev = SymEval(module_aliases(ctx.mod(CD)))
    n = 3
    a = symarray('a', (n,))
    q = symarray('q', (n, n))
    t = symarray('t', (n, n, n))
    x = symarray('x', (2, n))   # two points, three coordinates: leading shape is preserved
    sh = sp.Symbol('s', positive=True)

    def f(c):
        c = np.asarray(c, dtype=object)
        return np.einsum('i,...i->...', a, c) + np.einsum('ij,...i,...j->...', q, c, c) + np.einsum('ijk,...i,...j,...k->...', t, c, c, c)
    paths = ev.run_fn(fn, [f, x, sh], {})
    live = [p for p in paths if p.done == 'return']
    ctx.need(len(live) == 1, 'central_difference does not reduce to one path')
    g = live[0].ret
    loc = CD + '::central_difference'
    ok_shape = hasattr(g, 'shape') and tuple(g.shape) == (2, n)
    ctx.ob('CDIFF', loc, 'gradient has the shape of coord', ok_shape, 'shape %s' % (getattr(g, 'shape', None),), node=fn)
    if not ok_shape:
        return
    bad0, bad1 = [], []
    for p in range(2):
        fx = f(x[p])
        for i in range(n):
            err = sp.expand(g[p, i] - sp.diff(fx, x[p, i]))
            poly = sp.Poly(err, sh) if err != 0 else None
            c0 = poly.coeff_monomial(1) if poly is not None else 0
            c1 = poly.coeff_monomial(sh) if poly is not None else 0
            if sp.expand(c0) != 0:
                bad0.append((p, i))
            if sp.expand(c1) != 0:
                bad1.append((p, i))
    ctx.ob('CDIFF', loc, 'component i of the result is ∂f/∂x_i in the limit shift→0 (generic cubic, 2 points × 3 coordinates)', not bad0,
           'wrong at (point, component) %s' % bad0, node=fn)
    ctx.ob('CDIFF', loc, 'error has no term linear in shift (second-order accurate)', not bad1, 'linear error term at %s' % bad1, node=fn)


def default_feasible(ctx):
    n = 0
    for rel, q in ((BP, 'BasePath.__init__'), (INIT, 'create_path'), (ISM, 'ISMPath.step'), (ISM, 'ISMPath.relax'),
                   (CD, 'central_difference')):
        fn = ctx.fn(rel, q)
        hits = guards.default_contradiction(fn)
        n += 1
        ctx.ob('DEFAULT-FEASIBLE', '%s::%s' % (rel, q), 'no parameter default is rejected by a later test on that parameter', not hits,
               '; '.join('default %s=%r reaches `%s` via %s' % (p, v, norm(node)[:60], ' -> '.join(tr)) for p, v, node, tr in hits),
               node=hits[0][2] if hits else fn)
    # create_path forwards its defaults unchanged to the constructor, so the constructor's defaults must be feasible with None
    cp = ctx.fn(INIT, 'create_path')
    calls = calls_in(cp, 'ISMPath')
    ctx.need(calls, 'create_path no longer constructs ISMPath')
    c = calls[0]
    fw = {k.arg: norm(k.value) for k in c.keywords}
    ctx.ob('DEFAULT-FEASIBLE', INIT + '::create_path', 'gradientfxn, gradientkwargs, integratorfxn forwarded to the path constructor',
           all(fw.get(k) == k for k in ('gradientfxn', 'gradientkwargs', 'integratorfxn')), str(fw), node=c)
    ctx.floor('DEFAULT-FEASIBLE', n, 5)


def string_step(ctx):
    mod = ctx.mod(ISM)
    step = ctx.fn(ISM, 'ISMPath.step')
    loc = ISM + '::ISMPath.step'
    aliases = module_aliases(mod)
    nested = {n.name: n for n in step.body if isinstance(n, ast.FunctionDef)}
    ctx.need('rate' in nested or len(nested) >= 2, 'step() no longer defines its rate functions as nested defs')
    g = symarray('g', (2, 2))
    tau = symarray('tau', (2, 2))
    selfobj = SymObj(None, {'grad_energy': (lambda c=None: g)}, 'self')
    # the integrator calls tell which nested function plays which role
    icalls = [c for c in calls_in(step) if norm(c.func) == 'self.integratorfxn']
    ctx.need(len(icalls) == 2, 'expected two integrator calls in step(), found %d' % len(icalls))
    plain = [c for c in icalls if not any(k.arg for k in c.keywords)]
    climb = [c for c in icalls if any(k.arg for k in c.keywords)]
    ctx.need(len(plain) == 1 and len(climb) == 1, 'cannot tell the plain and the climbing integrator call apart')
    plain, climb = plain[0], climb[0]
    ev = SymEval(aliases)

    def run_nested(name, args, kw):
        fn = nested.get(name)
        ctx.need(fn is not None, 'rate function %s is not a nested def of step()' % name)
        paths = ev.run_fn(fn, args, kw, env=None)
        return paths
    # bind `self` for nested function evaluation through a wrapper environment
    def eval_rate(name, *args, **kw):
        fn = nested.get(name)
        ctx.need(fn is not None, 'rate function %s is not a nested def of step()' % name)
        env = ev.bind(fn, list(args), dict(kw))
        env['self'] = selfobj
        paths = ev.run_fn(fn, env=env)
        live = [p for p in paths if p.done == 'return']
        ctx.need(len(live) == 1, 'rate function %s does not reduce to one path' % name)
        return live[0].ret
    x = symarray('x', (2, 2))
    rname = norm(plain.args[0])
    r = eval_rate(rname, x)
    ctx.ob('STRING-STEP', loc, 'plain images move along -grad E', equal(r, -g), 'rate = %s' % (r,), node=nested.get(rname))
    cname = norm(climb.args[0])
    kwname = [k.arg for k in climb.keywords if k.arg][0]
    rc = eval_rate(cname, x, **{kwname: tau})
    want = -g + 2 * np.einsum('ij,ij->i', g, tau)[:, None] * tau
    ctx.ob('STRING-STEP', loc, 'climbing images move along -grad E + 2 (grad E·τ) τ', equal(rc, want), 'climbrate = %s' % (rc,), node=nested.get(cname))
    # wiring of the two integrator calls
    ctx.ob('STRING-STEP', loc, 'plain integration starts from the path coordinates with the chosen timestep',
           len(plain.args) >= 3 and norm(plain.args[1]) == 'self.coord' and norm(plain.args[2]) == 'timestep', norm(plain), node=plain)
    tgt = climb._parent
    ok = (isinstance(tgt, ast.Assign) and isinstance(tgt.targets[0], ast.Subscript) and norm(tgt.targets[0].slice) == 'climbindex'
          and norm(climb.args[1]) == 'self.coord[climbindex]' and norm(climb.args[2]) == 'timestep')
    ctx.ob('STRING-STEP', loc, 'climbing images are re-integrated from their own coordinates and replace the same rows', ok, norm(tgt)[:200], node=climb)
    tk = [k for k in climb.keywords if k.arg][0]
    # tangent passed is the path's unit tangent at the climbing indices
    tdefs = [s for s in ast.walk(step) if isinstance(s, ast.Assign) and isinstance(s.targets[0], ast.Name) and s.targets[0].id == norm(tk.value).split('[')[0]]
    ok = norm(tk.value).endswith('[climbindex]') and tdefs and norm(tdefs[0].value) == 'self.unittangent'
    ctx.ob('STRING-STEP', loc, 'climbing images use their own unit tangents', bool(ok), norm(tk.value), node=climb)

    # unit tangent: evaluate on a symbolic 3-point path in the plane
    ut = ctx.fn(ISM, 'ISMPath.unittangent')
    c = symarray('c', (3, 2), real=True)
    so = SymObj(None, {'coord': c}, 'self')
    paths = ev.run_fn(ut, [so], {})
    live = [p for p in paths if p.done == 'return']
    ctx.need(len(live) == 1, 'unittangent does not reduce to one path')
    T = live[0].ret
    d0, d1 = c[1] - c[0], c[2] - c[1]
    nrm = lambda v: sp.sqrt(v[0] ** 2 + v[1] ** 2)
    u0, u1 = d0 / nrm(d0), d1 / nrm(d1)
    mid = u0 + u1
    locu = ISM + '::ISMPath.unittangent'
    ctx.ob('STRING-STEP', locu, 'end tangents are the unit forward/backward differences', equal(T[0], u0) and equal(T[2], u1), node=ut)
    ctx.ob('STRING-STEP', locu, 'interior tangent is the normalised sum of the adjacent unit differences',
           is_zero(sp.simplify(T[1][0] * mid[1] - T[1][1] * mid[0])) and is_zero(sp.simplify(T[1][0] ** 2 + T[1][1] ** 2 - 1)), node=ut)

    # relax: climbing images = strict interior maxima, at most climbpoints; steps wired
    relax = ctx.fn(ISM, 'ISMPath.relax')
    locr = ISM + '::ISMPath.relax'
    mm = [s for s in ast.walk(relax) if isinstance(s, ast.Assign) and isinstance(s.targets[0], ast.Name) and s.targets[0].id == 'maxmap']
    ctx.need(len(mm) == 1, 'relax(): definition of maxmap not found')
    e = symarray('e', (5,), real=True)
    p = Path({'energy': e})
    ev2 = SymEval(aliases)
    try:
        v = ev2.ev(mm[0].value, p)
        want = [False] + [sp.And(e[i] > e[i - 1], e[i] > e[i + 1]) for i in range(1, 4)] + [False]
        ok = len(v) == 5 and all((a is False and b is False) or (a is not False and b is not False and sp.simplify(sp.Equivalent(a, b)) == sp.true) for a, b in zip(list(v), want))
        det = str(list(v))
    except Opaque as ex:
        ok, det = False, str(ex)
    ctx.ob('STRING-STEP', locr, 'climbing candidates are the strict interior energy maxima; end images never climb', ok, det, node=mm[0])
    trunc = [s for s in ast.walk(relax) if isinstance(s, ast.Assign) and norm(s.targets[0]) == 'climbindex' and isinstance(s.value, ast.Subscript)
             and isinstance(s.value.slice, ast.Slice)]
    ok = False
    for s in trunc:
        par = s._parent
        if isinstance(par, ast.If) and 'climbpoints' in norm(par.test) and norm(s.value.slice.upper) == 'climbpoints' and s.value.slice.lower is None:
            ok = True
    ctx.ob('STRING-STEP', locr, 'at most `climbpoints` images climb', ok, node=trunc[0] if trunc else relax)
    scalls = [c for c in calls_in(relax) if norm(c.func) == 'currentpath.step']
    ctx.need(len(scalls) == 2, 'relax(): expected two step() call sites')
    ok = all(norm(kwarg(c, 'timestep', 0)) == 'timestep' for c in scalls)
    ok_c = [kwarg(c, 'climbindex', 1) for c in scalls]
    ctx.ob('STRING-STEP', locr, 'relaxation steps do not climb; climbing steps pass the chosen climbing images', ok and ok_c[0] is None and norm(ok_c[1]) == 'climbindex',
           '; '.join(norm(c) for c in scalls), node=scalls[0])
    # interpolate_path keeps end points: new arc coordinates run from subα[0] to subα[-1] inclusive in each segment
    ls = [c for c in calls_in(step) if norm(c.func) == 'np.linspace']
    ctx.need(len(ls) == 1, 'step(): np.linspace re-spacing not found')
    a0, a1, a2 = [norm(x) for x in ls[0].args[:3]]
    ctx.ob('STRING-STEP', loc, 're-spacing keeps each segment\'s end points and its number of images',
           a0.endswith('[0]') and a1.endswith('[-1]') and a0[:-3] == a1[:-4] and a2 == 'len(%s)' % a0[:-3] and not any(k.arg == 'endpoint' for k in ls[0].keywords),
           norm(ls[0]), node=ls[0])
    segs = {norm(s.targets[0]): norm(s.value) for s in ast.walk(step) if isinstance(s, ast.Assign) and norm(s.targets[0]) in ('startindices', 'endindices')}
    ctx.ob('STRING-STEP', loc, 'segments run from 0 / each climbing image to the next climbing image (inclusive) / the end',
           segs.get('startindices', '').replace(' ', '') == '[0]+aslist(climbindex)' and segs.get('endindices', '').replace(' ', '') == 'aslist(np.asarray(climbindex)+1)+[None]',
           str(segs), node=step)


def step_model(ctx):
    """ISMPath.step evaluated as a whole on a symbolic four-image path with recording stubs"""
    cls = ctx.fn(ISM, 'ISMPath')
    step = ctx.fn(ISM, 'ISMPath.step')
    loc = ISM + '::ISMPath.step'
    aliases = module_aliases(ctx.mod(ISM))
    c = symarray('c', (4, 2), real=True)
    h = sp.Symbol('h', positive=True)
    G = lambda row, j: sp.Function('g%d' % j)(*row)
    for tag, climb in (('plain step', None), ('climbing step, image 2', 2)):
        made, icalls = [], []

        def grad(coord, **k):
            return np.array([[G(row, j) for j in range(2)] for row in np.asarray(coord, dtype=object)], dtype=object)

        def integ(rate, coord, timestep, **kw):
            icalls.append((np.array(coord, dtype=object), timestep, dict(kw)))
            return np.asarray(coord, dtype=object) + timestep * rate(np.asarray(coord, dtype=object), **kw)

        def mk(coord, energyfxn=None, gradientfxn='cdiff', gradientkwargs=None, integratorfxn='rk', **extra):
            o = SymObj(cls, {'coord': np.asarray(coord, dtype=object), 'energyfxn': energyfxn, 'gradientfxn': gradientfxn, 'gradientkwargs': gradientkwargs if gradientkwargs is not None else {},
                             'integratorfxn': integratorfxn, 'arccoord': arr([0] + [sp.Symbol('s%d' % i, positive=True) for i in range(1, len(coord))])}, 'path%d' % len(made))
            made.append(o)
            return o

        class Spline(PyStub):
            def __init__(self, a, y):
                self.a, self.y = a, y

            def __call__(self, x):
                return np.array([[sp.Function('spl%d' % j)(xi) for j in range(2)] for xi in np.ravel(x)], dtype=object)
        splines = []
        tang = symarray('tau', (4, 2), real=True)
        selfobj = SymObj(cls, {'coord': c.copy(), 'energyfxn': 'EFN', 'gradientfxn': 'GFN', 'gradientkwargs': {'shift': 'SHIFT'}, 'integratorfxn': integ, 'grad_energy': grad, 'unittangent': tang,
                               'default_timestep': sp.Symbol('h0', positive=True)}, 'self')
        ev = SymEval(aliases)
        ev.globals = {'ISMPath': mk, 'CubicSpline': lambda a, y: (splines.append(Spline(a, y)) or splines[-1]), 'aslist': lambda v: list(v) if isinstance(v, (list, tuple)) else ([int(x) for x in np.ravel(v)] if is_arr(v) else [v])}
        ev.np_override = {'numpy.linspace': lambda a, b, n_: arr([a + (b - a) * sp.Rational(i, int(n_) - 1) for i in range(int(n_))]), 'numpy.any': lambda v: False}
        try:
            r = [q for q in ev.run_fn(step, [selfobj], dict(timestep=h, climbindex=climb)) if q.done == 'return']
        except (Opaque, WouldRaise) as e:
            raise AnalysisError('ISMPath.step on the model path (%s): %s' % (tag, e))
        ctx.need(len(r) == 1, 'ISMPath.step does not reduce to one path (%s)' % tag)
        out = r[0].ret
        g = grad(c)
        want_i = c - h * g
        if climb is not None:
            dot = sum(g[climb, j] * tang[climb, j] for j in range(2))
            want_i = want_i.copy()
            want_i[climb] = c[climb] + h * (-g[climb] + 2 * dot * tang[climb])
        inter = made[0] if made else None
        ok = inter is not None and equal(inter.attrs['coord'], want_i)
        ctx.ob('STRING-STEP', loc, '%s: images are advanced by the integrator from their own coordinates along -grad E%s with the given timestep' % (tag, '' if climb is None else ' (the climbing image along -grad E + 2 (grad E·τ) τ with its own tangent)'),
               bool(ok), node=step, key='model advance ' + tag)
        ok = isinstance(out, SymObj) and out is made[-1] and len(made) == 2 and out.attrs['energyfxn'] == 'EFN' and out.attrs['gradientfxn'] == 'GFN' and out.attrs['gradientkwargs'] == {'shift': 'SHIFT'} \
            and inter.attrs['energyfxn'] == 'EFN' and inter.attrs['gradientfxn'] == 'GFN' and inter.attrs['gradientkwargs'] == {'shift': 'SHIFT'}
        ctx.ob('STRING-STEP', loc, '%s: the returned path evaluates energies and gradients with the functions and gradient settings of the path the step was taken from' % tag, bool(ok),
               'returned path: energy %s, gradient %s %s' % ((out.attrs.get('energyfxn'), out.attrs.get('gradientfxn'), out.attrs.get('gradientkwargs')) if isinstance(out, SymObj) else (None, None, None)), node=step, key='model settings ' + tag)
        ok = len(splines) == 1 and inter is not None and equal(np.asarray(splines[0].y, dtype=object), inter.attrs['coord']) and equal(np.asarray(splines[0].a, dtype=object), inter.attrs['arccoord'])
        ctx.ob('STRING-STEP', loc, '%s: the new images are interpolated along the advanced string (spline through the advanced images over their arc lengths)' % tag, bool(ok), node=step, key='model spline ' + tag)
        ctx.ob('STRING-STEP', loc, '%s: the path the step was taken from keeps its coordinates' % tag, equal(selfobj.attrs['coord'], c), node=step, key='model operand ' + tag)


def run(ctx):
    ctx.explanation = ('C20: integrator update formulas are extracted from the syntax tree with the rate function bound to the linear law '
                       'and compared, as polynomials in h·λ, with the Taylor polynomial of exp; the central difference is applied to a generic '
                       'cubic and its error expanded in the step; default-argument feasibility is a contradiction rule on the constructors; '
                       'the string step\'s rate laws, tangents and image selection are extracted and compared with the documented formulas. '
                       'Not decided: convergence to the minima/saddle.')
    ctx.run_rules([lambda c: linear_order(c, EU, 'euler', 1), lambda c: linear_order(c, RK, 'rungekutta', 4), cdiff, default_feasible, string_step, pure_step, step_model])
