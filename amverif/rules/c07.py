"""C07 Written LAMMPS data / dump / POSCAR files.

Decided statically (the writers are evaluated over *model* systems whose values are symbols; no file is written):
 * PROP-TABLE: the per-atom_style column tables (Atoms and Velocities sections), extracted by evaluating the table
   functions on every atom_style literal they dispatch on, list the columns LAMMPS' read_data documents, in that order,
   id first; every column that carries a physical quantity has a unit key of that quantity's dimension taken from the
   *requested* unit style (also in the hybrid arm); pure-number columns have none.
 * UNIT-KEYS: every unit key the tables use is defined by every non-lj unit style.
 * DATA-FILE: atom_data.dump evaluated on a model system: wrap(return_imageflags) first; counts line; three bound
   lines = the same-named getters / length unit, tilt line iff a tilt is non-zero, in the order xy xz yz; Atoms header
   names the style; the tables are written with the resolved atom_style/units/float_format; image-flag columns a,b,c
   are appended iff some flag is non-zero; Velocities iff the system has velocities; the snippet names the resolved
   units, atom_style and p/m flags of system.pbc (all 8 settings).
 * DUMP-FILE: atom_dump.dump evaluated likewise: TIMESTEP / NUMBER OF ATOMS items, bounding box lo+min(0,xy,xz,xy+xz),
   hi+max(...), ylo+min(0,yz), yhi+max(0,yz) (LAMMPS dump documentation), tilt columns xy,xz,yz, pp/fm flags per
   direction (8 settings), ATOMS header = the table's column names.
 * TABLE: table.dump and atom_dump.table_dump evaluated on a model data frame: written columns are the requested
   properties' components in C order under their table names, each divided by its unit; 'scaled' properties are
   taken box-relative; ids 1..N (dump file: the system's own if present, uniqueness asserted); float_format and
   separator passed to the csv writer; pandas keywords exist in the installed version.
 * POSCAR: evaluated on a model system: scale line; lattice = vects/scale; optional symbols line; counts per type
   1..max; Cartesian coordinates divided by the scale, direct coordinates box-relative; atoms grouped by type.
Declined: that the printed decimal strings equal the values to the printed precision (number formatting).
"""
import ast
import itertools
import re

import numpy as np
import sympy as sp

from ..core import norm, calls_in, kwarg, AnalysisError, walk_no_nested
from ..symx import ToleranceLog, SymEval, Path, SymObj, PyStub, Text, Closure, symarray, is_zero, equal, Opaque, WouldRaise, module_aliases, arr, is_arr
from .. import apicompat, dims
from ..iomodel import (UnitKey, UnitExpr, StyleMod, UC, DF, Col, indexstr, unit_factor, style_keys, LAMMPS_ATOMS, LAMMPS_VELOCITIES, COLUMN_QUANTITY,
                       UNITLESS_COLUMNS, UNJUDGED_COLUMNS, SCALED_COLUMNS)

AD = 'atomman/dump/atom_data/dump.py'
API = 'atomman/dump/atom_data/atoms_prop_info.py'
VPI = 'atomman/dump/atom_data/velocities_prop_info.py'
DD = 'atomman/dump/atom_dump/dump.py'
DPI = 'atomman/dump/atom_dump/process_prop_info.py'
TD = 'atomman/dump/table/dump.py'
TPI = 'atomman/dump/table/process_prop_info.py'
PD = 'atomman/dump/poscar/dump.py'
ST = 'atomman/lammps/style.py'

FF = '%.7e'   # a float format no default equals: shows that the caller's format reaches every number

# ------------------------------------------------------------------ text comparison

_DIRECTIVE = re.compile(r'%[-+ #0]*\d*(?:\.\d+)?[diouxXeEfFgGs]')


def render(t):
    """Text -> (template, values): formatted pieces become {directive} placeholders, values listed in order"""
    if isinstance(t, str):
        return t, []
    if not isinstance(t, Text):
        raise Opaque('not a text: %r' % (t,))
    out, vals = '', []
    for x in t.pieces:
        if isinstance(x, str):
            out += x
        elif x[0] == 'fmt':
            f, args = x[1], list(x[2])
            pos = 0
            k = 0
            for m in _DIRECTIVE.finditer(f):
                out += f[pos:m.start()]
                d = m.group(0)
                v = args[k] if k < len(args) else None
                k += 1
                if d in ('%i', '%d') or (d == '%s' and getattr(v, 'is_integer', False)):
                    d = '%d'
                out += '{' + d + '}'
                vals.append(v)
                pos = m.end()
            out += f[pos:]
            if k != len(args):
                raise Opaque('format %r applied to %d values' % (f, len(args)))
        elif x[0] == 'val':
            v = x[1]
            out += '{%d}' if getattr(v, 'is_integer', False) or isinstance(v, int) else '{}'
            vals.append(v)
        elif x[0] == 'table':
            out += '{table}'
            vals.append(x[1])
        else:
            raise Opaque('text piece %r' % (x,))
    return out, vals


GRID = [sp.Integer(v) for v in (-5, -3, -1, 2, 4, 7)]


def pl_equal(a, b, tilt_syms):
    """equality of expressions that are piecewise linear in the tilt symbols (Min/Max): CAS normal form first, otherwise
    exact evaluation on a grid with several affinely independent points in every cell of the sign arrangement"""
    a, b = sp.sympify(a), sp.sympify(b)
    if is_zero(a - b, deep=False):
        return True
    if not (a.has(sp.Min) or a.has(sp.Max) or b.has(sp.Min) or b.has(sp.Max)):
        return is_zero(a - b)
    free = sorted((a - b).free_symbols, key=str)
    others = [s for s in free if s not in tilt_syms]
    sub0 = {s: sp.Rational(3 + 2 * i, 2 + i) for i, s in enumerate(others)}
    ts = [s for s in free if s in tilt_syms]
    for combo in itertools.product(GRID, repeat=len(ts)):
        sub = dict(sub0)
        sub.update(dict(zip(ts, combo)))
        if sp.simplify((a - b).subs(sub)) != 0:
            return False
    return True


def same(a, b, tilt=()):
    if isinstance(a, dict) and isinstance(b, dict):
        return set(a) == set(b) and all(same(a[k], b[k], tilt) for k in a)
    if isinstance(a, (list, tuple)) and isinstance(b, (list, tuple)):
        return len(a) == len(b) and all(same(x, y, tilt) for x, y in zip(a, b))
    if isinstance(a, Col) and isinstance(b, Col):
        return a.scaled == b.scaled and is_zero(a.expr - b.expr)
    if is_arr(a) or is_arr(b):
        return equal(a, b)
    if isinstance(a, (sp.Basic, int, float)) and isinstance(b, (sp.Basic, int, float)) and not isinstance(a, bool) and not isinstance(b, bool):
        return pl_equal(a, b, tilt)
    return a == b


def text_check(ctx, rule, loc, what, got, exp_template, exp_values, node=None, tilt=()):
    """one obligation for the literal skeleton, one for the values"""
    try:
        tpl, vals = render(got)
    except Opaque as e:
        ctx.ob(rule, loc, what + ': text can be reconstructed', False, str(e), node=node, key=what + ' text')
        return False
    ok1 = tpl == exp_template
    ctx.ob(rule, loc, what + ': line skeleton, labels and number formats', ok1, '' if ok1 else 'got %r expected %r' % (tpl[:400], exp_template[:400]), node=node, key=what + ' skeleton')
    if not ok1:
        return False
    bad = [k for k, (x, y) in enumerate(zip(vals, exp_values)) if not same(x, y, tilt)]
    ok2 = len(vals) == len(exp_values) and not bad
    ctx.ob(rule, loc, what + ': every printed value is the documented quantity', ok2,
           '' if ok2 else 'value #%s: got %s expected %s' % (bad[:3], [str(vals[k])[:80] for k in bad[:3]], [str(exp_values[k])[:80] for k in bad[:3]]), node=node, key=what + ' values')
    return ok2


# ------------------------------------------------------------------ prop tables

def _style_literals(fn, var='atom_style'):
    out = []
    for n in ast.walk(fn):
        if isinstance(n, ast.Compare) and norm(n.left) == var and len(n.ops) == 1:
            c = n.comparators[0]
            if isinstance(n.ops[0], ast.Eq) and isinstance(c, ast.Constant) and isinstance(c.value, str):
                out.append(c.value)
            elif isinstance(n.ops[0], ast.In) and isinstance(c, (ast.Tuple, ast.List)):
                out.extend(e.value for e in c.elts if isinstance(e, ast.Constant) and isinstance(e.value, str))
    seen = []
    for s in out:
        if s not in seen:
            seen.append(s)
    return seen


def eval_table(ctx, rel, name, atom_style, units, keys_by_style=None):
    fn = ctx.fn(rel, name)
    ev = SymEval(module_aliases(ctx.mod(rel)), funcs={name: fn})
    sm = StyleMod(keys_by_style)
    ev.globals = {'style': sm}
    paths = ev.run_fn(fn, [atom_style, units], {})
    live = [p for p in paths if p.done == 'return']
    if len(live) != 1:
        raise Opaque('%s(%r) does not reduce to one returning path' % (name, atom_style))
    tab = live[0].ret
    if not isinstance(tab, list) or not all(isinstance(d, dict) and 'prop_name' in d for d in tab):
        raise Opaque('%s(%r) does not return a list of property dictionaries' % (name, atom_style))
    return tab, sm


def _columns(tab):
    cols = []
    for d in tab:
        tn = d.get('table_name', d['prop_name'])
        for t in (tn if isinstance(tn, (list, tuple)) else [tn]):
            cols.append((t, d))
    return cols


def _dim_ok(u, quantity):
    from fractions import Fraction as F
    try:
        return tuple(u.dim()) == tuple(map(F, dims.DIM[quantity]))
    except Exception:
        return False


EXCLUDED = {'template': 'column order differs between LAMMPS versions (atom-type before/after the template columns)'}


def prop_tables(ctx):
    keys_by = style_keys(ctx)
    nonlj = sorted(k for k in keys_by if k != 'lj')
    n_inst = 0
    for rel, name, oracle, floor in ((API, 'atoms_prop_info', LAMMPS_ATOMS, 18), (VPI, 'velocities_prop_info', None, 18)):
        fn = ctx.fn(rel, name)
        loc = '%s::%s' % (rel, name)
        styles = [s for s in _style_literals(fn) if s != 'hybrid']
        ctx.floor('PROP-TABLE/%s styles' % name, len(styles), floor)
        used_keys = {}
        for st in styles + ['hybrid charge sphere', 'hybrid sphere dipole', 'hybrid charge dipole', 'hybrid sphere peri ellipsoid']:
            try:
                tab, sm = eval_table(ctx, rel, name, st, 'UQ')
            except WouldRaise as e:
                ctx.ob('PROP-TABLE', loc, '%s: table can be built' % st, False, str(e), node=fn, key=st + ' builds')
                continue
            except Opaque as e:
                raise AnalysisError('%s(%r): %s' % (name, st, e))
            n_inst += 1
            cols = _columns(tab)
            names = [c for c, _ in cols]
            if st.startswith('hybrid'):
                # LAMMPS: id type x y z followed by the sub-style columns not already present, in sub-style order
                base = (oracle or {}).get('atomic', LAMMPS_VELOCITIES['__default__']).split() if oracle else LAMMPS_VELOCITIES['__default__'].split()
                want = list(base)
                for sub in st.split()[1:]:
                    ref = (oracle[sub] if oracle else LAMMPS_VELOCITIES.get(sub, LAMMPS_VELOCITIES['__default__'])).split()
                    # whole properties are appended: group columns by the property they belong to
                    for c in ref:
                        if c not in want:
                            want.append(c)
                ctx.ob('PROP-TABLE', loc, '%s: columns are id type x y z plus each sub-style\'s additional columns' % st if oracle else '%s: columns are id vx vy vz plus each sub-style\'s additional columns' % st,
                       names == want, 'got %s expected %s' % (' '.join(names), ' '.join(want)), node=fn, key=st + ' order')
            elif st in EXCLUDED and oracle is not None:
                ctx.note('%s/%s not compared with the reference: %s' % (name, st, EXCLUDED[st]))
                ctx.ob('PROP-TABLE', loc, '%s: first column is the atom id and x y z are present' % st, names[:1] == ['id'] and all(c in names for c in 'xyz'), ' '.join(names), node=fn, key=st + ' order')
            else:
                want = (oracle[st] if oracle is not None else LAMMPS_VELOCITIES.get(st, LAMMPS_VELOCITIES['__default__'])).split() if (oracle is None or st in oracle) else None
                if want is None:
                    raise AnalysisError('%s dispatches on atom_style %r for which the rule table has no reference line' % (name, st))
                ctx.ob('PROP-TABLE', loc, '%s: columns are `%s` (LAMMPS read_data)' % (st, ' '.join(want)), names == want, 'got `%s`' % ' '.join(names), node=fn, key=st + ' order')
            ctx.ob('PROP-TABLE', loc, '%s: the id column is the 1..N atom id of the table writer' % st, cols[0][1].get('prop_name') == 'a_id' and names[0] == 'id',
                   str(cols[0][1]), node=fn, key=st + ' id')
            bad = []
            keys = set()
            for c, d in cols:
                u = d.get('unit')
                if isinstance(u, (UnitKey, UnitExpr)):
                    keys |= {x.key for x in (u.parts if isinstance(u, UnitExpr) else [u]) if isinstance(x, UnitKey)}
                    if u.styles != {'UQ'}:
                        bad.append('%s uses the %s unit table, not the requested one' % (c, sorted(u.styles)))
                if c in COLUMN_QUANTITY:
                    q = COLUMN_QUANTITY[c]
                    if not isinstance(u, (UnitKey, UnitExpr)):
                        bad.append('%s (a %s) has no unit' % (c, q))
                    elif not _dim_ok(u, q):
                        bad.append('%s (a %s) is converted with %r' % (c, q, u))
                elif c in UNITLESS_COLUMNS:
                    if u is not None:
                        bad.append('%s (a pure number) is converted with %r' % (c, u))
                elif c in UNJUDGED_COLUMNS:
                    pass
                else:
                    bad.append('column %s is not in the rule table' % c)
            ctx.ob('PROP-TABLE', loc, '%s: every dimensional column is converted with a unit of its own quantity from the requested unit style' % st, not bad, '; '.join(bad), node=fn, key=st + ' units')
            # 3-component properties keep their component order
            trip = [tuple(d['table_name']) for d in tab if isinstance(d.get('table_name'), (list, tuple))]
            okc = all(t in (('x', 'y', 'z'), ('mux', 'muy', 'muz'), ('vx', 'vy', 'vz'), ('lx', 'ly', 'lz'), ('wx', 'wy', 'wz'), ('x0', 'y0', 'z0')) for t in trip)
            ctx.ob('PROP-TABLE', loc, '%s: vector properties list their components in x,y,z order' % st, okc, str(trip), node=fn, key=st + ' components')
            used_keys[st] = keys
        # key exhaustiveness
        EXEMPT = {('electron', 'density'): 'LAMMPS defines no density unit for the electron style', ('electron', 'dynamic viscosity'): 'not defined by LAMMPS'}
        for st, keys in used_keys.items():
            missing = [(us, k) for us in nonlj for k in sorted(keys) if k not in keys_by[us] and (us, k) not in EXEMPT]
            ctx.ob('UNIT-KEYS', loc, '%s: every unit key used (%s) is defined by every non-lj unit style' % (st, ', '.join(sorted(keys)) or 'none'), not missing,
                   'undefined: %s' % missing, node=fn, key=st + ' keys')
    ctx.floor('PROP-TABLE', n_inst, 44)


# ------------------------------------------------------------------ model system

class BoxStub(PyStub):
    def __init__(self, tilt='tri'):
        r = lambda n: sp.Symbol(n, real=True)
        nz = lambda n: sp.Symbol(n, real=True, nonzero=True)
        self.xlo, self.xhi, self.ylo, self.yhi, self.zlo, self.zhi = [r(n) for n in ('xlo', 'xhi', 'ylo', 'yhi', 'zlo', 'zhi')]
        z = sp.Integer(0)
        if tilt == 'orth':
            self.xy, self.xz, self.yz = z, z, z
        elif tilt == 'yz':
            self.xy, self.xz, self.yz = z, z, nz('yz')
        elif tilt == 'xy':
            self.xy, self.xz, self.yz = nz('xy'), z, z
        else:
            self.xy, self.xz, self.yz = nz('xy'), nz('xz'), nz('yz')
        self.vects = symarray('v', (3, 3), real=True)
        self.origin = symarray('o', (3,), real=True)
        self.tilt_syms = [s for s in (self.xy, self.xz, self.yz) if isinstance(s, sp.Symbol)]


class AtomsStub(PyStub):
    def __init__(self, view, atype=None):
        self.view = view
        self.atype = atype

    @property
    def pos(self):
        # the live position array of the system (not a copy): writing into it changes the system
        if 'pos' not in self.view:
            raise Opaque('atoms.pos of a model without positions')
        return self.view['pos']


class SysStub(PyStub):
    def __init__(self, pbc=(True, True, True), tilt='tri', props=('atype', 'pos'), flags='zero', natoms=None):
        self.calls = []
        self.natoms = sp.Symbol('N', integer=True, positive=True) if natoms is None else natoms
        self.natypes = sp.Symbol('NT', integer=True, positive=True)
        self.pbc = tuple(pbc)
        self.symbols = ('Al', 'Cu')
        self.masses = (None, None)
        self._box = BoxStub(tilt)
        self.timestep = sp.Symbol('TS', integer=True)
        self._props = list(props)
        self._flags = np.zeros((2, 3), dtype=object) if flags == 'zero' else (arr([[1, 0, -2], [-1, 0, 2]]) if flags == 'cancel' else symarray('img', (2, 3), integer=True, nonzero=True))
        if flags == 'zero':
            self._flags[...] = sp.Integer(0)
        view = {}
        for p in props:
            view[p] = symarray(p, (2, 3)) if p in ('pos', 'velocity') else symarray(p, (2,))
        self._atoms = AtomsStub(view)

    # reads of the cell and of the atoms are recorded: what is written must be read after the wrap (which may enlarge the cell along non-periodic directions)
    @property
    def box(self):
        self.calls.append(('read', 'box'))
        return self._box

    @property
    def atoms(self):
        self.calls.append(('read', 'atoms'))
        return self._atoms

    def wrap(self, return_imageflags=False):
        self.calls.append(('wrap', return_imageflags))
        return self._flags if return_imageflags else None

    def atoms_prop(self, key=None, value=None, scale=False, **kw):
        self.calls.append(('atoms_prop', key, scale))
        if key is None:
            return list(self._props)
        raise Opaque('atoms_prop(%r)' % key)


class FileStub(PyStub):
    def __init__(self, name, mode, log):
        self.name, self.mode, self.log = name, mode, log

    def write(self, text):
        self.log.append(('write', self.name, self.mode, text))


def _open(log):
    def f(name, mode='r', **kw):
        return FileStub(name, mode, log)
    return f


def _tabstub(rec, name):
    def f(system, *a, **kw):
        rec.append((name, system, kw))
        return Text([('table', dict(kw, writer=name))])
    return f


def data_file(ctx):
    mod = ctx.mod(AD)
    fn = ctx.fn(AD, 'dump')
    loc = AD + '::dump'
    funcs = {n.name: n for n in mod.body if isinstance(n, ast.FunctionDef)}
    for need in ('box_content', 'atoms_content', 'info_content'):
        ctx.fn(AD, need)
    aliases = module_aliases(mod)
    n = 0
    scen = [dict(pbc=(True, True, True), tilt='tri', flags='cancel', vel=False, units='UQ', atom_style='AQ', f=None)]
    for pbc in itertools.product((False, True), repeat=3):
        scen.append(dict(pbc=pbc, tilt='tri', flags='zero', vel=False, units='UQ', atom_style='AQ', f=None))
    scen.append(dict(pbc=(True, True, False), tilt='orth', flags='nz', vel=True, units='UQ', atom_style='AQ', f='out.dat'))
    scen.append(dict(pbc=(True, False, True), tilt='yz', flags='nz', vel=False, units=None, atom_style=None, f=None))
    scen.append(dict(pbc=(False, True, True), tilt='xy', flags='zero', vel=True, units=None, atom_style='AQ', f=None))
    scen.append(dict(pbc=(True, True, True), tilt='orth', flags='zero', vel=False, units='UQ', atom_style=None, f=None, potential=True))
    for sc in scen:
        tag = 'pbc=%s tilt=%s flags=%s vel=%s units=%s style=%s f=%s%s' % (''.join('p' if x else 'f' for x in sc['pbc']), sc['tilt'], sc['flags'], sc['vel'], sc['units'], sc['atom_style'], sc['f'],
                                                                            ' potential' if sc.get('potential') else '')
        n += 1
        rec = []
        props = ['atype', 'pos'] + (['velocity'] if sc['vel'] else [])
        system = SysStub(sc['pbc'], sc['tilt'], props, sc['flags'])
        ev = SymEval(aliases, funcs=dict(funcs))
        ev.text_mode = True
        sm, uc = StyleMod(), UC()
        pot = None
        if sc.get('potential'):
            class Pot(PyStub):
                units = 'PU'
                atom_style = 'PA'

                def normalize_symbols(self, s):
                    return list(s)

                def pair_data_info(self, *a, **kw):
                    rec.append(('pair_data_info', a, kw))
                    return 'PAIRINFO'
            pot = Pot()
        ev.globals = {'style': sm, 'uc': uc, 'dump_table': _tabstub(rec, 'dump_table'), 'OrderedDict': dict, 'open': _open(rec),
                      'atoms_prop_info': lambda a='atomic', u='metal': ('atoms_prop_info', a, u),
                      'velocities_prop_info': lambda a='atomic', u='metal': ('velocities_prop_info', a, u)}
        tol = ToleranceLog()
        ev.np_override = tol.overrides()
        try:
            paths = ev.run_fn(fn, [system], dict(f=sc['f'], atom_style=sc['atom_style'], units=sc['units'], float_format=FF, potential=pot))
        except WouldRaise as e:
            ctx.ob('DATA-FILE', loc, '%s: the writer runs to completion' % tag, False, str(e), node=fn, key=tag + ' runs')
            continue
        except Opaque as e:
            raise AnalysisError('atom_data.dump (%s): %s' % (tag, e))
        finally:
            bad = tol.absolute_on_scaled()
            ctx.ob('DATA-FILE', loc, '%s: no quantity in file units (bounds, tilts: lengths whose size depends on the unit style) is compared with zero through an absolute tolerance; '
                   'a tilt of 1e-10 (metres) is a tilt' % tag, not bad, '; '.join('isclose/allclose(%s, 0) depends on %s' % (str(a)[:60], v) for a, v, _k in bad), node=fn, key=tag + ' exact zero tests')
        live = [p for p in paths if p.done == 'return']
        ctx.need(len(live) == 1, 'atom_data.dump does not reduce to one path (%s): %d' % (tag, len(live)))
        ret = live[0].ret
        U = sc['units'] or ('PU' if pot else 'metal')
        A = sc['atom_style'] or ('PA' if pot else 'atomic')
        if sc['f'] is None:
            ok = isinstance(ret, tuple) and len(ret) == 2
            ctx.ob('DATA-FILE', loc, '%s: returns (content, snippet)' % tag, ok, repr(ret)[:200], node=fn, key=tag + ' returns')
            if not ok:
                continue
            content, info = ret
        else:
            # content goes to open(f, 'w'); the snippet is returned alone
            info = ret
            wr = [r for r in rec if r[0] == 'write']
            ok = len(wr) == 1 and wr[0][1] == sc['f'] and wr[0][2] == 'w'
            ctx.ob('DATA-FILE', loc, '%s: the content is written once to the named file' % tag, ok, str(wr)[:200], node=fn, key=tag + ' written')
            content = wr[0][3] if ok else None
        # --- ordering: wrap first, with image flags requested
        ok = system.calls[:1] == [('wrap', True)]
        ctx.ob('DATA-FILE', loc, '%s: atoms are wrapped (image flags requested) before the cell, the atoms or any property is read from the system (the wrap may enlarge the cell)' % tag, ok, str(system.calls[:3]), node=fn, key=tag + ' wrap first')
        # --- snippet
        if pot is None:
            okinfo = isinstance(info, str)
            lines = info.split('\n') if okinfo else []
            b = ' '.join('p' if x else 'm' for x in sc['pbc'])
            miss = [l for l in ('units %s' % U, 'atom_style %s' % A, 'boundary %s' % b) if l not in lines]
            if isinstance(sc['f'], str) and 'read_data %s' % sc['f'] not in lines:
                miss.append('read_data %s' % sc['f'])
            ctx.ob('DATA-FILE', loc, '%s: the snippet names the units, atom_style and boundary flags that were used' % tag, okinfo and not miss,
                   'missing line(s) %s in %r' % (miss, info if okinfo else repr(info)[:200]), node=funcs.get('info_content', fn), key=tag + ' snippet')
        else:
            pc = [r for r in rec if r[0] == 'pair_data_info']
            ok = len(pc) == 1 and pc[0][2].get('units') == U and pc[0][2].get('atom_style') == A and len(pc[0][1]) >= 2 and pc[0][1][1] == system.pbc
            ctx.ob('DATA-FILE', loc, '%s: the potential\'s snippet is generated with the resolved units/atom_style and the system\'s pbc' % tag, ok, str(pc)[:300], node=fn, key=tag + ' snippet')
        if content is None:
            continue
        # --- content
        L = UnitKey(U, 'length').sym
        bx = system.box
        tpl = '\n{%d} atoms\n{%d} atom types\n'
        vals = [system.natoms, sp.Integer(len(system.symbols)) if pot is not None else system.natypes]
        for a in 'xyz':
            tpl += '{%s} {%s} %slo %shi\n' % (FF, FF, a, a)
            vals += [getattr(bx, a + 'lo') / L, getattr(bx, a + 'hi') / L]
        if sc['tilt'] != 'orth':
            tpl += '{%s} {%s} {%s} xy xz yz\n' % (FF, FF, FF)
            vals += [bx.xy / L, bx.xz / L, bx.yz / L]
        tpl += '\nAtoms # %s\n\n{table}' % A
        extra = None
        if sc['flags'] != 'zero':
            extra = {'imageflag_a': system._flags[:, 0], 'imageflag_b': system._flags[:, 1], 'imageflag_c': system._flags[:, 2]}
        vals.append({'prop_info': ('atoms_prop_info', A, U), 'float_format': FF, 'extra': extra, 'writer': 'dump_table'})
        if sc['vel']:
            tpl += '\nVelocities\n\n{table}'
            vals.append({'prop_info': ('velocities_prop_info', A, U), 'float_format': FF, 'writer': 'dump_table'})
        # normalise table kwargs: absent extra == None
        try:
            gtpl, gvals = render(content)
            for v in gvals:
                if isinstance(v, dict) and v.get('writer') == 'dump_table':
                    v.setdefault('extra', None)
            for v in vals:
                if isinstance(v, dict):
                    v.setdefault('extra', None)
        except Opaque:
            pass
        text_check(ctx, 'DATA-FILE', loc, tag, content, tpl, vals, node=fn, tilt=bx.tilt_syms)
        tabs = [r for r in rec if r[0] == 'dump_table']
        ctx.ob('DATA-FILE', loc, '%s: every table is written from the (wrapped) system itself' % tag, bool(tabs) and all(r[1] is system for r in tabs), node=fn, key=tag + ' same system')
    ctx.floor('DATA-FILE', n, 13)


# ------------------------------------------------------------------ dump file

def dump_file(ctx):
    mod = ctx.mod(DD)
    fn = ctx.fn(DD, 'dump')
    loc = DD + '::dump'
    aliases = module_aliases(mod)
    n = 0
    scen = [dict(pbc=pbc, tilt='tri') for pbc in itertools.product((False, True), repeat=3)]
    scen += [dict(pbc=(True, True, True), tilt='orth'), dict(pbc=(True, False, True), tilt='yz'), dict(pbc=(False, False, True), tilt='xy'),
             dict(pbc=(True, True, False), tilt='orth', default=True)]
    for sc in scen:
        tag = 'pbc=%s tilt=%s%s' % (''.join('p' if x else 'f' for x in sc['pbc']), sc['tilt'], ' default-columns' if sc.get('default') else '')
        n += 1
        rec = []
        system = SysStub(sc['pbc'], sc['tilt'], ('atype', 'pos', 'atom_id'))
        ev = SymEval(aliases)
        ev.text_mode = True
        sm, uc = StyleMod(), UC()
        PI = [{'prop_name': 'atom_id', 'table_name': ['id'], 'shape': (), 'unit': None, 'dtype': None},
              {'prop_name': 'atype', 'table_name': ['type'], 'shape': (), 'unit': None, 'dtype': None},
              {'prop_name': 'pos', 'table_name': ['x', 'y', 'z'], 'shape': (3,), 'unit': UnitKey('UQ', 'length'), 'dtype': None}]

        def ppi(**kw):
            rec.append(('process_prop_info', kw))
            return PI
        ev.globals = {'style': sm, 'uc': uc, 'table_dump': _tabstub(rec, 'table_dump'), 'process_prop_info': ppi}
        kw = dict(lammps_units='UQ', float_format=FF)
        if not sc.get('default'):
            kw['prop_info'] = [{'prop_name': 'given'}]
        tol = ToleranceLog()
        ev.np_override = tol.overrides()
        try:
            paths = ev.run_fn(fn, [system], kw)
        except WouldRaise as e:
            ctx.ob('DUMP-FILE', loc, '%s: the writer runs to completion' % tag, False, str(e), node=fn, key=tag + ' runs')
            continue
        except Opaque as e:
            raise AnalysisError('atom_dump.dump (%s): %s' % (tag, e))
        finally:
            bad = tol.absolute_on_scaled()
            ctx.ob('DUMP-FILE', loc, '%s: no quantity in file units (bounds, tilts) is compared with zero through an absolute tolerance; the header form follows the exact tilts' % tag, not bad,
                   '; '.join('isclose/allclose(%s, 0) depends on %s' % (str(a)[:60], v) for a, v, _k in bad), node=fn, key=tag + ' exact zero tests')
        live = [p for p in paths if p.done == 'return']
        ctx.need(len(live) == 1, 'atom_dump.dump does not reduce to one path (%s)' % tag)
        content = live[0].ret
        L = UnitKey('UQ', 'length').sym
        bx = system.box
        xlo, xhi, ylo, yhi, zlo, zhi, xy, xz, yz = [getattr(bx, a) / L for a in ('xlo', 'xhi', 'ylo', 'yhi', 'zlo', 'zhi', 'xy', 'xz', 'yz')]
        z = sp.Integer(0)
        bounds = [(xlo + sp.Min(z, xy, xz, xy + xz), xhi + sp.Max(z, xy, xz, xy + xz)), (ylo + sp.Min(z, yz), yhi + sp.Max(z, yz)), (zlo, zhi)]
        tpl = 'ITEM: TIMESTEP\n{%d}\nITEM: NUMBER OF ATOMS\n{%d}\nITEM: BOX BOUNDS'
        vals = [system.timestep, system.natoms]
        if sc['tilt'] != 'orth':
            tpl += ' xy xz yz'
        tpl += ''.join(' pp' if x else ' fm' for x in sc['pbc']) + '\n'
        for (lo, hi), t in zip(bounds, (xy, xz, yz)):
            if sc['tilt'] == 'orth':
                tpl += '{%s} {%s}\n' % (FF, FF)
                vals += [lo, hi]
            else:
                tpl += '{%s} {%s} {%s}\n' % (FF, FF, FF)
                vals += [lo, hi, t]
        tpl += 'ITEM: ATOMS id type x y z\n{table}'
        vals.append({'prop_info': PI, 'float_format': FF, 'writer': 'table_dump'})
        text_check(ctx, 'DUMP-FILE', loc, tag, content, tpl, vals, node=fn, tilt=bx.tilt_syms)
        pc = [r for r in rec if r[0] == 'process_prop_info']
        ok = len(pc) == 1 and pc[0][1].get('lammps_units') == 'UQ'
        if ok and sc.get('default'):
            k = pc[0][1]
            ok = k.get('prop_name') == ['atom_id', 'atype', 'pos'] and [tuple(s) for s in (k.get('shape') or [])] == [(), (), (3,)] and k.get('prop_info') is None
            ctx.ob('DUMP-FILE', loc, '%s: default columns are the atom id first, then every per-atom property with its own shape' % tag, ok, str(k)[:300], node=fn, key=tag + ' default columns')
        elif ok:
            ok = pc[0][1].get('prop_info') == [{'prop_name': 'given'}]
            ctx.ob('DUMP-FILE', loc, '%s: the caller\'s column description and unit style reach the column resolver' % tag, ok, str(pc[0][1])[:300], node=fn, key=tag + ' columns forwarded')
        else:
            ctx.ob('DUMP-FILE', loc, '%s: the column resolver is called once with the requested unit style' % tag, False, str(pc)[:300], node=fn, key=tag + ' resolver')
        tabs = [r for r in rec if r[0] == 'table_dump']
        ctx.ob('DUMP-FILE', loc, '%s: the table is written from the same system' % tag, len(tabs) == 1 and tabs[0][1] is system, node=fn, key=tag + ' same system')
    ctx.floor('DUMP-FILE', n, 12)


# ------------------------------------------------------------------ table writers on a model data frame

class TabSys(PyStub):
    """system model for the table writers: atoms_df(scale) gives symbolic columns, flagged when taken box-relative"""

    def __init__(self, own_id=False, dup_id=False):
        self.natoms = 2
        self.calls = []
        self.own_id = own_id
        names = {'atype': (), 'pos': (3,), 'stress': (3, 3), 'charge': ()}
        if own_id:
            names['atom_id'] = ()
        self.shapes = names
        view = {k: symarray(k, (2,) + s) for k, s in names.items()}
        self.atoms = AtomsStub(view)

    def atoms_prop(self, key=None, value=None, scale=False, **kw):
        self.calls.append(('atoms_prop', key, scale))
        if key is None:
            return list(self.shapes)
        if key == 'pos' and value is None:
            tag = 'spos' if scale else 'pos'
            return np.array([[Col('%s[%d]@%d' % (tag, j, i), scaled=bool(scale)).expr for j in range(3)] for i in range(2)], dtype=object)
        raise Opaque('atoms_prop(%r)' % key)

    def atoms_df(self, scale=False):
        self.calls.append(('atoms_df', scale))
        sc = ['pos'] if scale is True else ([] if scale is False else (list(scale) if isinstance(scale, list) else [scale]))
        cols = {}
        for k, shp in self.shapes.items():
            for idx, istr in indexstr(shp):
                cols[k + istr] = Col(k + istr, scaled=k in sc)
        return DF(cols)


def _pandas_version():
    import pandas
    v = pandas.__version__.split('.')
    return (int(v[0]), int(v[1]))


def _run_table(ctx, rel, fname, prop_info, system, extra=None, stub_ppi=True, return_prop_info=False):
    fn = ctx.fn(rel, fname)
    ev = SymEval(module_aliases(ctx.mod(rel)))
    ev.text_mode = True
    uc = UC()
    g = {'uc': uc, 'indexstr': indexstr, 'OrderedDict': dict, 'pdversion': _pandas_version(), 'set': lambda x: set(map(str, x)), 'len': len}
    if stub_ppi:
        g['process_prop_info'] = lambda **kw: [dict(d) for d in kw['prop_info']]
    ev.globals = g
    kw = dict(prop_info=prop_info, float_format=FF)
    if extra is not None:
        kw['extra'] = extra
    if return_prop_info:
        kw['return_prop_info'] = True
    paths = ev.run_fn(fn, [system], kw)
    live = [p for p in paths if p.done == 'return']
    if len(live) != 1:
        raise Opaque('%s does not reduce to one path' % fname)
    return live[0].ret, uc


def tables(ctx):
    UL = UnitKey('UQ', 'length')
    UP = UnitKey('UQ', 'pressure')
    for rel, fname, idname in ((TD, 'dump', 'a_id'), (DD, 'table_dump', 'atom_id')):
        loc = '%s::%s' % (rel, fname)
        fn = ctx.fn(rel, fname)
        scen = [('cartesian', 'pos', UL, False), ('scaled', 'pos', 'scaled', False)]
        if idname == 'atom_id':
            scen.append(('own ids', 'pos', UL, True))
        for tag, pname, punit, own in scen:
            system = TabSys(own_id=own)
            PI = [{'prop_name': idname, 'table_name': ['id'], 'shape': (), 'unit': None, 'dtype': None},
                  {'prop_name': 'atype', 'table_name': ['type'], 'shape': (), 'unit': None, 'dtype': None},
                  {'prop_name': pname, 'table_name': ['x', 'y', 'z'], 'shape': (3,), 'unit': punit, 'dtype': None},
                  {'prop_name': 'stress', 'table_name': ['sxx', 'sxy', 'sxz', 'syx', 'syy', 'syz', 'szx', 'szy', 'szz'], 'shape': (3, 3), 'unit': UP, 'dtype': None},
                  {'prop_name': 'charge', 'table_name': ['q'], 'shape': (), 'unit': None, 'dtype': None}]
            extra = {'imageflag_a': 'FA', 'imageflag_b': 'FB'} if rel == TD and tag == 'scaled' else None
            try:
                ret, uc = _run_table(ctx, rel, fname, PI, system, extra)
            except WouldRaise as e:
                ctx.ob('TABLE', loc, '%s: the writer runs to completion' % tag, False, str(e), node=fn, key=tag + ' runs')
                continue
            except Opaque as e:
                raise AnalysisError('%s (%s): %s' % (loc, tag, e))
            ok = isinstance(ret, Text) and len(ret.pieces) == 1 and ret.pieces[0][0] == 'table'
            ctx.ob('TABLE', loc, '%s: returns the csv text of one table' % tag, ok, repr(ret)[:200], node=fn, key=tag + ' returns')
            if not ok:
                continue
            csv = ret.pieces[0][1]
            cols = csv['columns']
            names = [c for c, _ in cols]
            want = ['id', 'type', 'x', 'y', 'z', 'sxx', 'sxy', 'sxz', 'syx', 'syy', 'syz', 'szx', 'szy', 'szz', 'q'] + (list(extra) if extra else [])
            ctx.ob('TABLE', loc, '%s: written columns are the requested components in C order under their table names%s' % (tag, ', extra columns last' if extra else ''),
                   names == want, 'got %s' % names, node=fn, key=tag + ' columns')
            if names != want:
                continue
            bad = []
            fl, fp = unit_factor(UL), unit_factor(UP)
            scaled = punit == 'scaled'
            expect = {'type': (sp.Symbol('col_atype'), False), 'q': (sp.Symbol('col_charge'), False)}
            for j, c in enumerate('xyz'):
                expect[c] = (Col('pos[%d]' % j).expr / (1 if scaled else fl), scaled)
            for (i, j), c in zip(itertools.product(range(3), repeat=2), want[5:14]):
                expect[c] = (Col('stress[%d][%d]' % (i, j)).expr / fp, False)
            for c, v in cols:
                if c == 'id':
                    if own:
                        okid = isinstance(v, Col) and v.name == 'atom_id'
                    else:
                        okid = [int(x) for x in list(v)] == [1, 2] if isinstance(v, (list, tuple, range)) else False
                    if not okid:
                        bad.append('id column is %r' % (v,))
                elif c in expect:
                    e, s = expect[c]
                    if not (isinstance(v, Col) and v.scaled == s and is_zero(v.expr - e)):
                        bad.append('%s is %r, expected %s%s' % (c, v, e, ' (box-relative)' if s else ''))
                elif extra and c in extra:
                    if v != extra[c]:
                        bad.append('%s is %r' % (c, v))
            ctx.ob('TABLE', loc, '%s: each column holds its own component divided by its unit (%s); ids are %s' % (
                tag, 'box-relative positions' if scaled else 'Cartesian positions / length unit', 'the system\'s own' if own else '1..N'), not bad, '; '.join(bad)[:400], node=fn, key=tag + ' values')
            okw = csv.get('sep') == ' ' and csv.get('float_format') == FF and csv.get('index') in (None, False) and csv.get('header') in (False, None) \
                and (csv.get('lineterminator', '\n') == '\n')
            ctx.ob('TABLE', loc, '%s: space separated, no index column, no header, caller\'s float format, \\n line ends' % tag, okw,
                   str({k: v for k, v in csv.items() if k != 'columns'}), node=fn, key=tag + ' csv options')
        # uniqueness assertion (dump-file writer keeps the system's own ids)
        if idname == 'atom_id':
            asserts = [s for s in ast.walk(fn) if isinstance(s, ast.Assert)]
            ok = any('set(' in norm(s.test) and 'len(' in norm(s.test) and 'atom_id' in norm(s.test) for s in asserts)
            ctx.ob('TABLE', loc, 'atom ids taken from the system are asserted unique before writing', ok, node=fn, key='unique ids')
    # to_csv / DataFrame API compatibility of the writers
    for rel in (TD, DD, AD, PD):
        issues, stats = apicompat.scan(ctx.mod(rel), df_hints=('atoms_df',))
        ctx.ob('API-COMPAT', rel, 'library calls and DataFrame methods exist with these keywords in the installed numpy/pandas (%d calls, %d frame methods)' % (
            stats['calls_resolved'], stats['df_method_calls']), not issues, '; '.join(i.what for i in issues)[:400], node=issues[0].node if issues else None, file=rel, key='api ' + rel)
    # column resolvers: table_name / shape defaults
    resolvers(ctx)
    returned_table(ctx)


def returned_table(ctx, rule='TABLE'):
    """the table format carries no column meaning: the conversion table the writer hands back is what the reader is given, so it must describe the columns as written --
    same properties, column names, shapes and units, box-relative columns still marked 'scaled'"""
    UL = UnitKey('UQ', 'length')
    fn = ctx.fn(TD, 'dump')
    loc = TD + '::dump'
    for tag, punit in (('cartesian', UL), ('scaled', 'scaled')):
        PI = [{'prop_name': 'atype', 'table_name': ['type'], 'shape': (), 'unit': None, 'dtype': None},
              {'prop_name': 'pos', 'table_name': ['x', 'y', 'z'], 'shape': (3,), 'unit': punit, 'dtype': None},
              {'prop_name': 'charge', 'table_name': ['q'], 'shape': (), 'unit': None, 'dtype': None}]
        try:
            ret, _uc = _run_table(ctx, TD, 'dump', [dict(d) for d in PI], TabSys(own_id=False), return_prop_info=True)
        except WouldRaise as e:
            ctx.ob(rule, loc, '%s positions, conversion table requested: the writer runs to completion' % tag, False, str(e), node=fn, key='returned table runs ' + tag)
            continue
        except Opaque as e:
            raise AnalysisError('%s (returned table, %s): %s' % (loc, tag, e))
        ok = isinstance(ret, tuple) and len(ret) == 2 and isinstance(ret[1], list) and len(ret[1]) == len(PI)
        got = [(d.get('prop_name'), list(d.get('table_name', [])), tuple(d.get('shape', ())), d.get('unit')) for d in ret[1]] if ok else None
        want = [(d['prop_name'], d['table_name'], d['shape'], d['unit']) for d in PI]
        ctx.ob(rule, loc, '%s positions: the returned conversion table names the written columns with their shapes and units%s' % (tag, ' (box-relative columns are still marked scaled)' if punit == 'scaled' else ''),
               bool(ok) and got == want, 'returned %s' % (got,), node=fn, key='returned table ' + tag)
    # the dump-file writer hands its resolved conversion table to table_dump and returns that very table: table_dump must leave it as it was (a box-relative column stays 'scaled')
    tfn = ctx.fn(DD, 'table_dump')
    for tag, pname, punit in (('box-relative positions under the name pos', 'pos', 'scaled'), ('the scaled alternate column spos', 'spos', 'scaled'), ('cartesian', 'pos', UL)):
        PI = [{'prop_name': 'atom_id', 'table_name': ['id'], 'shape': (), 'unit': None, 'dtype': None},
              {'prop_name': 'atype', 'table_name': ['type'], 'shape': (), 'unit': None, 'dtype': None},
              {'prop_name': pname, 'table_name': ['xs', 'ys', 'zs'] if punit == 'scaled' else ['x', 'y', 'z'], 'shape': (3,), 'unit': punit, 'dtype': None}]
        given = [dict(d) for d in PI]
        try:
            _run_table(ctx, DD, 'table_dump', given, TabSys(own_id=False))
        except WouldRaise as e:
            ctx.ob(rule, DD + '::table_dump', '%s: the writer runs to completion' % tag, False, str(e), node=tfn, key='dump table kept runs ' + tag)
            continue
        except Opaque as e:
            raise AnalysisError('%s::table_dump (conversion table kept, %s): %s' % (DD, tag, e))
        ctx.ob(rule, DD + '::table_dump', '%s: the conversion table handed in (the one atom_dump.dump returns on request) still describes the columns as written -- names, shapes and units, box-relative columns still marked scaled' % tag,
               given == PI, 'left as %s' % ([(d.get('prop_name'), d.get('unit')) for d in given],), node=tfn, key='dump table kept ' + tag)
    dfn = ctx.fn(DD, 'dump')
    rets = [c for c in ast.walk(dfn) if isinstance(c, ast.Call) and isinstance(c.func, ast.Attribute) and c.func.attr == 'append' and norm(c.func.value) == 'returns' and c.args]
    handed = [norm(kwarg(c, 'prop_info')) for c in calls_in(dfn) if norm(c.func) == 'table_dump' and kwarg(c, 'prop_info') is not None]
    ctx.ob(rule, DD + '::dump', 'the conversion table returned on request is the one the column writer was given', bool(handed) and any(norm(c.args[0]) == handed[0] for c in rets), 'handed %s, returned %s' % (handed, [norm(c.args[0]) for c in rets]),
           node=dfn, key='dump table identity')


def resolvers(ctx):
    """process_prop_info (table and dump-file flavour): defaults for table_name and shape are consistent with the writer's C-order component naming"""
    for rel in (TPI, DPI):
        fn = ctx.fn(rel, 'process_prop_info')
        loc = rel + '::process_prop_info'
        ev = SymEval(module_aliases(ctx.mod(rel)))
        sm = StyleMod()
        std = ctx.fn_opt(rel, 'standard_conversions')
        g = {'indexstr': indexstr, 'deepcopy': lambda x: [dict(d) for d in x], 'style': sm}
        if std is not None:
            ev.funcs['standard_conversions'] = std
        ev.globals = g
        given = [{'prop_name': 'stress', 'shape': (2, 2)}, {'prop_name': 'pos', 'table_name': ['x', 'y', 'z']}, {'prop_name': 'charge', 'table_name': 'q', 'unit': 'e'},
                 {'prop_name': 'atype'}, {'prop_name': 'strain', 'table_name': ['e0', 'e1', 'e2', 'e3', 'e4', 'e5'], 'shape': (2, 3)}]
        kw = {'prop_info': given}
        if rel == DPI:
            kw['lammps_units'] = 'UQ'
        try:
            paths = ev.run_fn(fn, [], kw)
        except Opaque as e:
            raise AnalysisError('%s: %s' % (loc, e))
        live = [p for p in paths if p.done == 'return']
        ctx.need(len(live) == 1, '%s does not reduce to one path' % loc)
        out = live[0].ret
        want = [('stress', ['stress[0][0]', 'stress[0][1]', 'stress[1][0]', 'stress[1][1]'], (2, 2), None), ('pos', ['x', 'y', 'z'], (3,), None), ('charge', ['q'], (), 'e'), ('atype', ['atype'], (), None),
                ('strain', ['e0', 'e1', 'e2', 'e3', 'e4', 'e5'], (2, 3), None)]
        got = [(d.get('prop_name'), list(d.get('table_name', [])), tuple(d.get('shape', ('?',))), d.get('unit')) for d in out] if isinstance(out, list) else None
        ctx.ob('RESOLVER', loc, 'defaults: component names prop[i][j] in C order for a given shape; shape = number of table names when none is given, a given shape is kept (the conversion tables the writers return carry both); str table name -> one column; unit defaults to None',
               got == want, 'got %s' % (got,), node=fn, key='defaults')
        ctx.ob('RESOLVER', loc, 'the caller\'s prop_info is not modified (a copy is completed)', all('shape' not in d or d is given[0] or d is given[4] for d in given[1:]) and 'table_name' not in given[0], node=fn, key='copy')
        if rel == DPI:
            # named lists: standard LAMMPS dump columns from the requested unit style
            kw = {'prop_name': ['atom_id', 'pos', 'spos', 'velocity', 'myprop'], 'lammps_units': 'UQ'}
            ev2 = SymEval(module_aliases(ctx.mod(rel)))
            ev2.funcs['standard_conversions'] = std
            sm2 = StyleMod()
            ev2.globals = dict(g, style=sm2)
            paths = ev2.run_fn(fn, [], kw)
            live = [p for p in paths if p.done == 'return']
            ctx.need(len(live) == 1, '%s (standard names) does not reduce to one path' % loc)
            out = live[0].ret
            got = [(d['prop_name'], d['table_name'], d['unit']) for d in out]
            want = [('atom_id', ['id'], None), ('pos', ['x', 'y', 'z'], UnitKey('UQ', 'length')), ('spos', ['xs', 'ys', 'zs'], 'scaled'),
                    ('velocity', ['vx', 'vy', 'vz'], UnitKey('UQ', 'velocity')), ('myprop', ['myprop'], None)]
            ctx.ob('RESOLVER', loc, 'standard dump columns: id; x y z in the requested length unit; xs ys zs box-relative; vx vy vz in the velocity unit; unknown names pass through',
                   got == want, 'got %s' % (got,), node=fn, key='standard')
            # the whole standard table: units of each column's quantity from the requested style
            tab, smx = eval_table(ctx, rel, 'standard_conversions', 'UQ', None) if False else (None, None)
            paths = ev2.run_fn(std, ['UQ'], {})
            live = [p for p in paths if p.done == 'return']
            ctx.need(len(live) == 1, 'standard_conversions does not reduce to one path')
            bad = []
            ncol = 0
            for c, d in _columns(live[0].ret):
                ncol += 1
                u = d.get('unit')
                if c in COLUMN_QUANTITY:
                    q = COLUMN_QUANTITY[c]
                    if not isinstance(u, (UnitKey, UnitExpr)) or u.styles != {'UQ'} or not _dim_ok(u, q):
                        bad.append('%s (a %s) has unit %r' % (c, q, u))
                    elif q == 'torque':
                        # LAMMPS states torque in force x distance units in every style and lists no separate torque unit for some (electron): the column is the style's
                        # force unit times its length unit, not a table entry that LAMMPS does not define
                        fl = unit_factor(UnitKey('UQ', 'force')) * unit_factor(UnitKey('UQ', 'length'))
                        if sp.simplify(unit_factor(u) - fl) != 0:
                            bad.append('%s (a torque) has unit %r, not force x length of the style' % (c, u))
                elif c in SCALED_COLUMNS:
                    if u != 'scaled':
                        bad.append('%s must be box-relative, has unit %r' % (c, u))
                elif c in UNITLESS_COLUMNS:
                    if u is not None:
                        bad.append('%s (a pure number) has unit %r' % (c, u))
            ctx.ob('RESOLVER', rel + '::standard_conversions', 'every standard dump column (%d) carries the unit of its quantity from the requested style; scaled columns are box-relative' % ncol,
                   not bad, '; '.join(bad), node=std, key='standard table')
            ctx.floor('RESOLVER/standard columns', ncol, 40)


# ------------------------------------------------------------------ POSCAR

class PoscarSys(PyStub):
    def __init__(self, atype, natypes, symbols):
        self.calls = []
        self.natypes = natypes
        self.natoms = len(atype)
        self.symbols = tuple(symbols)
        self.box = BoxStub('tri')
        self.P = symarray('p', (len(atype), 3), real=True)
        self.Sc = symarray('s', (len(atype), 3), real=True)
        self.atoms = AtomsStub({'pos': self.P.copy()}, np.array([sp.Integer(a) for a in atype], dtype=object))

    def atoms_prop(self, key=None, value=None, scale=False, **kw):
        self.calls.append(('atoms_prop', key, scale))
        if key == 'pos' and value is None:
            return (self.Sc if scale else self.P).copy()
        raise Opaque('atoms_prop(%r)' % key)


def _np_unique(a, return_counts=False):
    vals = sorted({int(x) for x in a.flat})
    u = np.array([sp.Integer(v) for v in vals], dtype=object)
    if not return_counts:
        return u
    c = np.array([sp.Integer(sum(1 for x in a.flat if int(x) == v)) for v in vals], dtype=object)
    return u, c


def poscar(ctx):
    fn = ctx.fn(PD, 'dump')
    loc = PD + '::dump'
    aliases = module_aliases(ctx.mod(PD))
    n = 0
    for tag, atype, natypes, symbols, given, style in (
            ('direct, symbols from system', [2, 1, 2, 1, 1], 2, ('Al', 'Cu'), None, 'direct'),
            ('cartesian, symbols given', [1, 2, 2], 2, (None, None), ['Fe', 'O'], 'Cartesian'),
            ('kartesisch, no symbols, type gap', [3, 1, 3], 3, (None, None, None), None, 'k'),
            ('Direct, single str symbol', [1, 1], 1, (None,), 'Si', 'Direct'),
            ('direct, a trailing type without atoms (three symbols, atoms of the first two)', [1, 2, 1], 3, ('Al', 'Cu', 'Ni'), None, 'direct'),
            ('cartesian, no symbols, a trailing type without atoms', [2, 1], 3, (None, None, None), None, 'cartesian')):
        n += 1
        system = PoscarSys(atype, natypes, symbols)
        ev = SymEval(aliases)
        ev.text_mode = True
        ev.globals = {}
        ev.np_override = {'numpy.unique': _np_unique}
        sc = sp.Symbol('scale', positive=True)
        try:
            paths = ev.run_fn(fn, [system], dict(header='HDR', symbols=given, coordstyle=style, box_scale=sc, float_format=FF))
        except WouldRaise as e:
            ctx.ob('POSCAR', loc, '%s: the writer runs to completion' % tag, False, str(e), node=fn, key=tag + ' runs')
            continue
        except Opaque as e:
            raise AnalysisError('poscar.dump (%s): %s' % (tag, e))
        live = [p for p in paths if p.done == 'return']
        ctx.need(len(live) == 1, 'poscar.dump does not reduce to one path (%s)' % tag)
        content = live[0].ret
        f3 = '{%s} {%s} {%s}' % (FF, FF, FF)
        tpl = 'HDR\n{%s}\n%s\n%s\n%s' % (FF, f3, f3, f3)
        vals = [sc] + [system.box.vects[i, j] / sc for i in range(3) for j in range(3)]
        syms = given if given is not None else (list(symbols) if None not in symbols else None)
        if isinstance(syms, str):
            syms = [syms]
        if syms is not None:
            tpl += '\n' + ' '.join(syms)
        tpl += '\n'
        for t in range(1, natypes + 1):          # one count per atom type of the system (as many as the symbols line names): a type without atoms counts 0
            tpl += '{%d} '
            vals.append(sp.Integer(sum(1 for a in atype if a == t)))
        tpl += '\n' + style
        cart = style[0] in 'cCkK'
        for t in range(1, natypes + 1):
            for i, a in enumerate(atype):
                if a == t:
                    tpl += '\n' + f3
                    vals += [(system.P[i, j] / sc) if cart else system.Sc[i, j] for j in range(3)]
        text_check(ctx, 'POSCAR', loc, tag, content, tpl, vals, node=fn)
        pc = [c for c in system.calls if c[0] == 'atoms_prop']
        ctx.ob('POSCAR', loc, '%s: positions are read %s' % (tag, 'Cartesian' if cart else 'box-relative'), len(pc) == 1 and pc[0][1] == 'pos' and bool(pc[0][2]) == (not cart), str(pc), node=fn, key=tag + ' mode')
        ctx.ob('POSCAR', loc, '%s: the system written keeps its positions (the division by the scale factor is made on a copy)' % tag, equal(np.asarray(system.atoms.view['pos'], dtype=object), system.P, deep=False), node=fn,
               key=tag + ' system kept')
    ctx.floor('POSCAR', n, 6)
    # symbols/natypes mismatch refused
    raises = [s for s in ast.walk(fn) if isinstance(s, ast.Raise)]
    ok = any(isinstance(r._parent, ast.If) and 'len(symbols)' in norm(r._parent.test) and 'natypes' in norm(r._parent.test) for r in raises)
    ctx.ob('POSCAR', loc, 'a symbols list whose length differs from the number of atom types is refused', ok, node=fn, key='symbols length')


def style_electrical(ctx):
    """charges, dipoles and electric fields are written in the unit the LAMMPS style names: each such entry of lammps.style.unit() has the SI dimension of its quantity and the SI
    magnitude of the documented LAMMPS unit (statcoulomb, Debye, V/angstrom, ...); being an expression over unit names with the right dimension it does not depend on the working units"""
    from .. import dims
    from fractions import Fraction as F
    ST_ = 'atomman/lammps/style.py'
    fn = ctx.fn(ST_, 'unit')
    n = 0
    for st, ref in dims.LAMMPS_SI_ELECTRICAL.items():
        ev = SymEval(module_aliases(ctx.mod(ST_)))
        ev.globals = {'OrderedDict': dict}
        try:
            live = [q for q in ev.run_fn(fn, [st], {}) if q.done == 'return']
        except (Opaque, WouldRaise) as e:
            raise AnalysisError('style.unit(%r): %s' % (st, e))
        ctx.need(len(live) == 1 and isinstance(live[0].ret, dict), 'style.unit(%r) does not return one table' % st)
        for k, want_si in ref.items():
            v = live[0].ret.get(k)
            n += 1
            try:
                d, magn = dims.dim_of(v)
                okd = tuple(d) == tuple(map(F, dims.DIM[k]))
                ok = okd and abs(magn / want_si - 1) < 1e-6
                det = 'dimension (L,M,T,Q,Θ) = %s, evaluates to %.9g SI' % (tuple(map(str, d)), magn)
            except Exception as e:
                ok, det = False, 'not a unit expression over known names: %s' % e
            ctx.ob('STYLE-ELECTRICAL', ST_ + '::unit', '%s/%s = %r is the unit LAMMPS documents for that style: the dimension of %s and %.9g in SI' % (st, k, v, k, want_si), bool(ok), det, node=fn, key='%s/%s electrical' % (st, k))
    ctx.floor('STYLE-ELECTRICAL', n, 21)


def flag_types(ctx):
    """the snippet writer uses the periodic flags as a mask (bflags[system.pbc] = 'p'): what System stores is a boolean array whatever the flags were given as
    (0/1 integers select elements 0 and 1 instead of masking)"""
    from .. import dtypeflow as D
    SYSF = 'atomman/core/System.py'
    cls = ctx.fn(SYSF, 'System')
    types = D.class_attr_types(cls)
    got = types.get('self.__pbc')
    ctx.ob('FLAG-TYPES', SYSF + '::System.pbc', 'the periodic flags System stores are booleans whatever container or numbers they were given as (they are used as a mask by the data-file snippet)',
           got is not None and set(got) == {'bool'}, 'stored element type: %s' % (sorted(map(str, got)) if got else 'not found'), node=cls, key='pbc bool')
    fn = ctx.fn(AD, 'dump')
    uses = [x for x in ast.walk(fn) if isinstance(x, ast.Subscript) and norm(x.slice).endswith('.pbc')]
    ctx.floor('FLAG-TYPES', 1 + len(uses), 1)


def system_kept(ctx):
    """writing a file does not change the system written: the writers take copies of the per-atom arrays (atoms_prop / conversions) and never write into what `system` still owns --
    a POSCAR written with a scale factor would otherwise leave the caller's positions divided by it, and every later file of the same system would be wrong"""
    from .. import effects
    n = 0
    for rel in (PD, DD, TD):
        fn = ctx.fn(rel, 'dump')
        n += 1
        muts, eff = effects.param_mutations(fn, {'system'}, summaries={'system.atoms_prop': ('fresh',), '.atoms_prop': ('fresh',), '.position_cartesian_to_relative': ('fresh',), 'deepcopy': ('fresh',),
                                                                      '.get_in_units': ('fresh',), 'uc.get_in_units': ('fresh',), '.atoms.df': ('fresh',), 'system.atoms.df': ('fresh',),
                                                                      'system.atoms_df': ('fresh',), '.atoms_df': ('fresh',)})   # System.atoms_df builds a new DataFrame from copies on every call
        ctx.ob('SYSTEM-KEPT', rel + '::dump', 'the system passed in is not written to (values are taken as copies before they are scaled or converted)', not muts,
               '; '.join('%s at line %d' % (w, nd.lineno) for nd, r, w in muts), node=muts[0][0] if muts else fn, key='system kept ' + rel)
    ctx.floor('SYSTEM-KEPT', n, 3)


def run(ctx):
    ctx.explanation = ('C07: the three writers are evaluated by the analyser on model systems whose cell, counts and per-atom columns are symbols; the '
                       'reconstructed text (skeleton + values) is compared with the published line formats (LAMMPS read_data / dump, VASP POSCAR) for every '
                       'periodicity setting, orthogonal/partly/fully tilted cells, with and without image flags, velocities, potentials; the per-style column '
                       'tables are compared with the LAMMPS reference and typed by physical dimension. Not decided: decimal rendering of the numbers.')
    # the data-file writer wraps the system before writing (image flags, bounds extended over non-periodic faces): "every atom lies within the written bounds" rests on
    # System.wrap, decided by the rule of the property that owns it
    from .c05 import wrap as system_wrap
    from .. import lints

    def fresh_tables(c):
        # the column tables are lists of dicts that the writers (and the hybrid arm of the table builder itself) extend and edit in place: each call must build its own
        for rel_, n_ in ((API, 1), (VPI, 1), (DPI, 2), (TPI, 1)):
            lints.fresh_results(c, 'FRESH-TABLES', rel_, floor=n_, what='a column table')
    # the unit strings of the style tables ('angstrom*angstrom/ps*g/mol') are evaluated by unitconvert.parse: ordinary precedence is the rule of C09, run here on the same source;
    # scaled columns and the wrap go through the cell's cached reciprocal vectors: the cache rule of C01
    from . import c09 as _c09
    from .c01 import cache as box_cache

    def _precedence(c):
        _c09._MOD[0] = c.mod('atomman/unitconvert.py')
        _c09.precedence(c)
    ctx.run_rules([prop_tables, data_file, dump_file, tables, poscar, system_wrap, fresh_tables, flag_types, _precedence, box_cache, style_electrical, system_kept])
