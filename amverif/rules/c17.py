"""C17 Analysis tools (displacement, strain/Nye, slip vector, disregistry, differential displacement).

Decided statically (Cython sources are read through Cython's parser and evaluated by the analyser on model inputs; nothing is compiled or run):
 * KERNELS: strain = sym(I - G), rotation = skew(I - G), invariants = trace, second invariant, determinant, angular velocity =
   sqrt(r01^2 + r02^2 + r12^2), for generic symbolic G.
 * NYE: dG = G[neighbour] - G[i]; the gradient of G is obtained per first index from a least-squares fit over the neighbour
   separations of the same atom; alpha_ab = d_{a+1} G[b, a+2] - d_{a+2} G[b, a+1] (indices mod 3), so a uniform G gives zero.
 * SOLVE-G: G solves Q G = P (current vectors first, reference vectors second, the pairs match_pq selected), identity when no
   pair, cos(theta_max) in degrees; every cached derived quantity is cleared on every solve; each derived property recomputes when
   cleared and clear_properties resets all of them.
 * MATCH: match_pq on model vectors pairs each current vector with the reference vector of smallest angle, rejects angles above
   theta_max, and resolves two claims on one reference vector in favour of the one whose length is closer to the shortest reference.
 * SLIP: slip_i = - sum over exactly the atom's own neighbours of (d_ij(current) - d_ij(reference)) for atoms of unequal
   coordination; both separations use the reference cell and its periodicity; the wrapper passes positions of the right systems.
 * DISREGISTRY: on a model bilayer the layers adjoining planepos.n are selected for any plane normal, the result is the
   displacement above minus below at each coordinate along m, displacement taken through the final box.
 * DDVECTORS: dvectors1 - dvectors0 for the same (atom, neighbours), neighbours from the reference system chosen by `reference`.
 * DISPLACEMENT: box and periodicity paired from the same system per box_reference (shared with C02).
Declined: that least squares over neighbour shells recovers an imposed deformation to rounding (numerical linear algebra).
"""
import ast
import itertools

import numpy as np
import sympy as sp

from ..core import norm, calls_in, AnalysisError
from ..symx import SymEval, SymObj, PyStub, Path, Opaque, WouldRaise, module_aliases, symarray, is_zero, equal, arr, is_arr
from . import c02

ST = 'atomman/defect/Strain.pyx'
SV = 'atomman/defect/slip_vector.pyx'
DR = 'atomman/defect/disregistry.py'
DD = 'atomman/defect/DifferentialDisplacement.py'
NY = 'atomman/defect/nye_tensor.py'

LIBM = {'sqrt': lambda x: sp.sqrt(x), 'fabs': lambda x: sp.Abs(x), 'cos': lambda x: sp.cos(x), 'pi': sp.pi}


def _ev(ctx, rel, **glob):
    ev = SymEval(module_aliases(ctx.mod(rel)))
    g = dict(LIBM)
    g.update(glob)
    ev.globals = g
    return ev


def _one(paths, what):
    live = [p for p in paths if p.done == 'return']
    if len(live) != 1:
        raise AnalysisError('%s does not reduce to one returning path (%d)' % (what, len(live)))
    return live[0]


def kernels(ctx):
    """the derived per-atom quantities, read through the Strain properties (kernels inlined wherever the class routes them)"""
    cls = ctx.fn(ST, 'Strain')
    G = symarray('g', (2, 3, 3), real=True)
    E = symarray('e', (2, 3, 3), real=True)
    Rr = symarray('r', (2, 3, 3), real=True)
    I = np.array(sp.eye(3).tolist(), dtype=object)
    names = ('G', 'strain', 'invariant1', 'invariant2', 'invariant3', 'angularvelocity', 'rotation', 'nye')

    def read(prop, given):
        attrs = {'_Strain__' + k: None for k in names}
        attrs.update({'_Strain__' + k: v for k, v in given.items()})
        obj = SymObj(cls, attrs, 'self')
        try:
            val = _ev(ctx, ST).getattr(obj, prop, None, Path({}))
        except (Opaque, WouldRaise) as e:
            raise AnalysisError('Strain.%s: %s' % (prop, e))
        return val, obj
    loc = ST + '::Strain.'
    eps, o = read('strain', {'G': G})
    want = np.array([((I - G[i]) + (I - G[i]).T) / 2 for i in range(2)], dtype=object)
    ctx.ob('KERNELS', loc + 'strain', 'strain = symmetric part of (I - G), per atom', np.shape(eps) == (2, 3, 3) and equal(np.asarray(eps, dtype=object), want, deep=False), node=ctx.fn(ST, 'Strain.strain'))
    rot, o = read('rotation', {'G': G})
    want = np.array([((I - G[i]) - (I - G[i]).T) / 2 for i in range(2)], dtype=object)
    ctx.ob('KERNELS', loc + 'rotation', 'rotation = antisymmetric part of (I - G), per atom', np.shape(rot) == (2, 3, 3) and equal(np.asarray(rot, dtype=object), want, deep=False), node=ctx.fn(ST, 'Strain.rotation'))
    M = [sp.Matrix(E[i].tolist()) for i in range(2)]
    i1, _o = read('invariant1', {'G': G, 'strain': E})
    i2, _o = read('invariant2', {'G': G, 'strain': E})
    i3, _o = read('invariant3', {'G': G, 'strain': E})
    ctx.ob('KERNELS', loc + 'invariant1', 'first invariant = trace of the strain', np.shape(i1) == (2,) and all(is_zero(i1[i] - M[i].trace()) for i in range(2)), node=ctx.fn(ST, 'Strain.invariant1'))
    ctx.ob('KERNELS', loc + 'invariant2', 'second invariant = ((tr e)^2 - tr(e^2))/2', np.shape(i2) == (2,) and all(is_zero(i2[i] - (M[i].trace() ** 2 - (M[i] * M[i]).trace()) / 2) for i in range(2)), node=ctx.fn(ST, 'Strain.invariant2'))
    ctx.ob('KERNELS', loc + 'invariant3', 'third invariant = determinant of the strain', np.shape(i3) == (2,) and all(is_zero(i3[i] - M[i].det()) for i in range(2)), node=ctx.fn(ST, 'Strain.invariant3'))
    av, _o = read('angularvelocity', {'G': G, 'rotation': Rr})
    ctx.ob('KERNELS', loc + 'angularvelocity', 'angular velocity = sqrt(r01^2 + r02^2 + r12^2) of the rotation', np.shape(av) == (2,) and all(is_zero(av[i] ** 2 - (Rr[i, 0, 1] ** 2 + Rr[i, 0, 2] ** 2 + Rr[i, 1, 2] ** 2)) for i in range(2)),
           node=ctx.fn(ST, 'Strain.angularvelocity'))
    # each quantity is computed from its source when not cached, stored, and served from the cache afterwards
    for prop, src, given in (('strain', 'G', {'G': G}), ('rotation', 'G', {'G': G}), ('invariant1', 'strain', {'G': G, 'strain': E}), ('invariant2', 'strain', {'G': G, 'strain': E}), ('invariant3', 'strain', {'G': G, 'strain': E}),
                            ('angularvelocity', 'rotation', {'G': G, 'rotation': Rr})):
        v1, o = read(prop, given)
        stored = o.attrs.get('_Strain__' + prop)
        g2 = dict(given)
        g2[prop] = 'CACHED'
        v2, _o = read(prop, g2)
        srcsyms = set().union(*[sp.sympify(x).free_symbols for x in np.ravel(given[src])])
        uses_src = all(sp.sympify(x).free_symbols <= srcsyms for x in np.ravel(np.asarray(v1, dtype=object)))
        ctx.ob('SOLVE-G', loc + prop, '%s is computed from %s when it is not cached, kept, and served from the cache when it is (solve_G clears the cache)' % (prop, src), stored is not None and stored is v1 and v2 == 'CACHED' and uses_src,
               node=ctx.fn(ST, 'Strain.' + prop), key='lazy ' + prop)


def nye(ctx):
    loc = ST + '::'
    gG = symarray('d', (3, 3, 3), real=True)     # gradG[x, y, z] = d_z G[x, y]
    out = np.empty((2, 3, 3), dtype=object)
    out[...] = sp.Integer(0)
    # the two small kernels, when they exist as separate functions (solve_nye below is judged end to end either way)
    knye = ctx.fn_opt(ST, 'nye_c')
    if knye is not None:
        _ev(ctx, ST).run_fn(knye, [gG, out, 1], {})
        bad = []
        for a in range(3):
            for b in range(3):
                w = gG[(a + 1) % 3, b, (a + 2) % 3] - gG[(a + 2) % 3, b, (a + 1) % 3]
                if not is_zero(out[1, a, b] - w):
                    bad.append((a, b))
        ctx.ob('NYE', loc + 'nye_c', 'α_ab = ∂G[a+1, b]/∂x_{a+2} - ∂G[a+2, b]/∂x_{a+1} (indices mod 3), stored in the row of the atom', not bad and all(v == 0 for v in np.ravel(out[0])), 'wrong entries %s' % bad, node=knye)
    G = symarray('g', (3, 3, 3), real=True)
    nl = arr([[2, 2, 1], [1, 0, 0], [1, 0, 0]])
    dG = np.empty((2, 3, 3), dtype=object)
    dG[...] = sp.Integer(0)
    kdg = ctx.fn_opt(ST, 'dG_c')
    if kdg is not None:
        _ev(ctx, ST).run_fn(kdg, [G, nl, dG, 0], {})
        ctx.ob('NYE', loc + 'dG_c', 'dG_j = G[j-th neighbour] - G[atom], one row per neighbour in list order', equal(dG[0], G[2] - G[0], deep=False) and equal(dG[1], G[1] - G[0], deep=False), node=kdg)
    # solve_nye wiring
    fn = ctx.fn(ST, 'Strain.solve_nye')
    cls = ctx.fn(ST, 'Strain')
    calls = []
    Mx = {}

    class Sys(PyStub):
        def dvect(self, i, nb):
            calls.append(('dvect', int(i), [int(v) for v in np.ravel(nb)]))
            return symarray('q%d_' % int(i), (len(np.ravel(nb)), 3), real=True)

    class NL(PyStub):
        nlist = nl

    def lstsq(A, B, rcond=None):
        k = len(calls)
        calls.append(('lstsq', np.array(A, dtype=object), np.array(B, dtype=object)))
        M = symarray('m%d_' % k, (3, 3), real=True)
        Mx[k] = M
        return (M, 'residuals', 'rank', 'singular values')
    obj = SymObj(cls, {'G': G, 'system': Sys(), 'neighbors': NL()}, 'self')
    ev = _ev(ctx, ST)
    ev.np_override = {'numpy.linalg.lstsq': lstsq}
    try:
        ev.run_fn(fn, [obj], {})
    except Opaque as e:
        raise AnalysisError('solve_nye: %s' % e)
    res = obj.attrs.get('_Strain__nye')
    dv = [c for c in calls if c[0] == 'dvect']
    ok = [(c[1], c[2]) for c in dv] == [(0, [2, 1]), (1, [0]), (2, [0])]
    ctx.ob('NYE', loc + 'Strain.solve_nye', 'the neighbour separations of atom i are taken to exactly its own neighbours (first coord entries of its list)', ok, str(dv), node=fn)
    ls = [(k, c) for k, c in enumerate(calls) if c[0] == 'lstsq']
    okl = len(ls) == 9
    if okl:
        # atom 0: three fits, x = 0,1,2: A = Q[:2], B = dG[:2, x, :]
        for x in range(3):
            k, c = ls[x]
            wantB = np.array([G[2, x] - G[0, x], G[1, x] - G[0, x]], dtype=object)
            okl = okl and c[1].shape == (2, 3) and c[2].shape == (2, 3) and equal(c[2], wantB, deep=False) and all(str(v).startswith('q0_') for v in np.ravel(c[1]))
    ctx.ob('NYE', loc + 'Strain.solve_nye', 'for each first index x the gradient of G[x, :] is fitted from (separations of the atom\'s neighbours, differences of G[x, :] to those neighbours)', bool(okl), '%d fits' % len(ls), node=fn)
    if okl and res is not None:
        # gradG[x, y, z] = M_x[z, y]
        M = [Mx[ls[x][0]] for x in range(3)]
        gg = np.array([[[M[x][z, y] for z in range(3)] for y in range(3)] for x in range(3)], dtype=object)
        want = np.array([[gg[(a + 1) % 3, b, (a + 2) % 3] - gg[(a + 2) % 3, b, (a + 1) % 3] for b in range(3)] for a in range(3)], dtype=object)
        ctx.ob('NYE', loc + 'Strain.solve_nye', 'the fitted coefficients enter the curl with gradG[x, y, z] = (fit of row x)[z, y]', equal(np.asarray(res[0], dtype=object), want, deep=False), node=fn)


def _always(stmts, pred):
    for st in stmts:
        if pred(st):
            return True
        if isinstance(st, ast.If) and st.orelse and _always(st.body, pred) and _always(st.orelse, pred):
            return True
        if isinstance(st, ast.Raise):
            return True
        if isinstance(st, ast.Return):
            return False
    return False


def solve_g(ctx):
    fn = ctx.fn(ST, 'Strain.solve_G')
    cls = ctx.fn(ST, 'Strain')
    loc = ST + '::Strain.solve_G'
    calls = []

    class Sys(PyStub):
        natoms = 2

        def dvect(self, i, nb):
            calls.append(('dvect', int(i), nb))
            return ('q', int(i))

    class NL(PyStub):
        class C(PyStub):
            def max(self):
                return 3
        coord = C()

        def __getitem__(self, i):
            return ('neigh', int(i))
    npairs = {0: 2, 1: 0}

    def match_pq(p, q, c, P, Q):
        calls.append(('match', p, q, c, P, Q))
        return npairs[q[1]]

    def lstsq(A, B, rcond=None):
        calls.append(('lstsq', A, B))
        return (symarray('s', (3, 3), real=True), 'residuals', 'rank', 'singular values')

    class W(PyStub):
        def warn(self, *a, **k):
            return None
    stale = {'_Strain__' + k: 'STALE' for k in ('G', 'strain', 'invariant1', 'invariant2', 'invariant3', 'angularvelocity', 'rotation', 'nye')}
    attrs = dict(stale)
    # one reference set per atom, stored as a regular (natoms, 3, 3) float array (what set_p_vectors stores when every atom has the same number of reference vectors)
    class _PV(np.ndarray):
        _am_attrs = {}
    pv_ = np.stack([symarray('pa', (3, 3), real=True), symarray('pb', (3, 3), real=True)]).view(_PV)
    pv_._am_attrs = {'dtype': 'float64'}
    attrs.update({'p_vectors': pv_, 'system': Sys(), 'neighbors': NL(), '_Strain__theta_max': sp.Integer(27)})
    obj = SymObj(cls, attrs, 'self')
    for variant, kw in (('solve_G()', {}), ('solve_G(theta_max=30)', {'theta_max': sp.Integer(30)})):
        calls.clear()
        obj.attrs.update(stale)
        obj.attrs['_Strain__theta_max'] = sp.Integer(27)
        ev = _ev(ctx, ST, match_pq=match_pq, warnings=W())
        ev.np_override = {'numpy.linalg.lstsq': lstsq}
        P_ = {}
        try:
            ev.run_fn(fn, [obj], dict(kw))
        except Opaque as e:
            raise AnalysisError('%s: %s' % (variant, e))
        left = [k for k in stale if k != '_Strain__G' and obj.attrs.get(k) is not None]
        ctx.ob('SOLVE-G', loc, '%s: every cached derived quantity (strain, invariants, rotation, angular velocity, Nye tensor) is cleared, so it is recomputed from the new G' % variant, not left,
               'still cached: %s' % [k.split('__')[-1] for k in left], node=fn, key=variant + ' cleared')
        th = kw.get('theta_max', sp.Integer(27))
        m = [c for c in calls if c[0] == 'match']
        ok = len(m) == 2 and all(is_zero(c[3] - sp.cos(th * sp.pi / 180)) for c in m)
        ctx.ob('SOLVE-G', loc, '%s: the angle limit passed to the matching is cos(theta_max) with theta_max in degrees (%s)' % (variant, th), ok, str([c[3] for c in m]), node=fn, key=variant + ' cos')
        if not kw:
            ok = len(m) == 2 and equal(np.asarray(m[0][1], dtype=object), np.asarray(attrs['p_vectors'][0], dtype=object), deep=False) and equal(np.asarray(m[1][1], dtype=object), np.asarray(attrs['p_vectors'][1], dtype=object), deep=False)
            ok = ok and m[0][2] == ('q', 0) and m[1][2] == ('q', 1) and [(c[1], c[2]) for c in calls if c[0] == 'dvect'] == [(0, ('neigh', 0)), (1, ('neigh', 1))]
            ctx.ob('SOLVE-G', loc, 'atom i is matched with its own reference vectors p[i] and its own current neighbour separations dvect(i, neighbors[i])', bool(ok), node=fn, key='own vectors')
            ls = [c for c in calls if c[0] == 'lstsq']
            ok = len(ls) == 1 and len(m) == 2
            if ok:
                Pbuf, Qbuf = m[0][4], m[0][5]
                ok = np.shape(ls[0][1]) == (2, 3) and np.shares_memory(ls[0][1], Qbuf) and np.shares_memory(ls[0][2], Pbuf) and np.shape(ls[0][2]) == (2, 3)
            ctx.ob('SOLVE-G', loc, 'G solves Q·G = P in the least-squares sense over the n matched pairs (current vectors as the matrix, reference vectors as the right-hand side)', bool(ok), node=fn, key='lstsq roles')
            Gs = obj.attrs.get('_Strain__G')
            ok = Gs is not None and np.shape(Gs) == (2, 3, 3) and equal(np.asarray(Gs[1], dtype=object), np.array(sp.eye(3).tolist(), dtype=object), deep=False) and all(str(v).startswith('s') for v in np.ravel(Gs[0]))
            ctx.ob('SOLVE-G', loc, 'an atom without matched pairs gets G = I; the others the fitted G', bool(ok), node=fn, key='identity')
    # each derived property recomputes when cleared; clear_properties resets all
    cp = ctx.fn(ST, 'Strain.clear_properties')
    names = ('G', 'strain', 'invariant1', 'invariant2', 'invariant3', 'angularvelocity', 'rotation', 'nye')
    filled = SymObj(ctx.fn(ST, 'Strain'), {'_Strain__' + k: 'CACHED' for k in names}, 'self')
    filled.attrs['_Strain__theta_max'] = 'KEPT'
    try:
        _one(_ev(ctx, ST).run_fn(cp, [filled], {}), 'Strain.clear_properties')
    except Opaque as e:
        raise AnalysisError('Strain.clear_properties: %s' % e)
    left = sorted(k for k in names if filled.attrs.get('_Strain__' + k) is not None)
    ctx.ob('SOLVE-G', ST + '::Strain.clear_properties', 'clear_properties resets G and all seven derived quantities (and nothing else)', not left and filled.attrs.get('_Strain__theta_max') == 'KEPT',
           'still set: %s' % left, node=cp)
    pass



def match(ctx):
    fn = ctx.fn(ST, 'match_pq')
    loc = ST + '::match_pq'
    R = sp.Rational
    p = arr([[1, 0, 0], [0, 1, 0], [0, 0, 1]])

    def run(q, cosmax):
        q = arr(q)
        P = np.empty((len(q), 3), dtype=object)
        Q = np.empty((len(q), 3), dtype=object)
        P[...] = sp.Integer(0)
        Q[...] = sp.Integer(0)
        try:
            n = _one(_ev(ctx, ST).run_fn(fn, [p, q, cosmax, P, Q], {}), 'match_pq').ret
        except Opaque as e:
            raise AnalysisError('match_pq: %s' % e)
        return int(n), [tuple(Q[i]) for i in range(int(n))], [tuple(P[i]) for i in range(int(n))]
    q = [[0, 1, R(1, 10)], [R(11, 10), R(1, 10), 0], [R(1, 10), 0, 1]]
    n, Qs, Ps = run(q, sp.cos(sp.pi * 27 / 180))
    ctx.ob('MATCH', loc, 'each current vector is paired with the reference vector of smallest angle (3 permuted, slightly distorted vectors)', n == 3 and Ps == [(0, 1, 0), (1, 0, 0), (0, 0, 1)] and Qs == [tuple(v) for v in arr(q)],
           'pairs %s' % list(zip(Qs, Ps)), node=fn)
    q2 = [[1, 1, 0], [0, 1, R(1, 20)]]
    n, Qs, Ps = run(q2, sp.cos(sp.pi * 27 / 180))
    ctx.ob('MATCH', loc, 'a current vector farther than theta_max from every reference vector is left out', n == 1 and Ps == [(0, 1, 0)], 'pairs %s' % list(zip(Qs, Ps)), node=fn, key='theta_max')
    q3 = [[R(13, 10), R(1, 10), 0], [R(21, 20), 0, R(1, 10)], [0, 1, 0]]
    n, Qs, Ps = run(q3, sp.cos(sp.pi * 27 / 180))
    ctx.ob('MATCH', loc, 'two current vectors claiming one reference vector: the one whose length is closer to the shortest reference length keeps it', n == 2 and Qs[0] == tuple(arr(q3)[1]) and Ps == [(1, 0, 0), (0, 1, 0)],
           'pairs %s' % list(zip(Qs, Ps)), node=fn, key='duplicate')
    q4 = [[R(21, 20), 0, R(1, 10)], [R(13, 10), R(1, 10), 0]]
    n, Qs, Ps = run(q4, sp.cos(sp.pi * 27 / 180))
    ctx.ob('MATCH', loc, 'the same with the claims in the other order', n == 1 and Qs[0] == tuple(arr(q4)[0]) and Ps == [(1, 0, 0)], 'pairs %s' % list(zip(Qs, Ps)), node=fn, key='duplicate reversed')


def slip(ctx):
    fn = ctx.fn(SV, 'slip_vector_c')
    loc = SV + '::slip_vector_c'
    P0 = symarray('a', (4, 3), real=True)
    P1 = symarray('b', (4, 3), real=True)
    B = symarray('v', (3, 3), real=True)
    nl = arr([[3, 1, 2, 3], [1, 0, 0, 0], [2, 0, 3, 0], [1, 2, 0, 0]])     # coordination 3,1,2,1: stale scratch rows must not be summed
    calls = []

    def dvect_c(u, v, b, pa, pb, pc):
        calls.append((np.array(u, dtype=object), np.array(v, dtype=object), b, (pa, pb, pc)))
        return np.asarray(v, dtype=object) - np.asarray(u, dtype=object)
    try:
        res = _one(_ev(ctx, SV, dvect_c=dvect_c).run_fn(fn, [P0, P1, B, nl, True, False, True], {}), 'slip_vector_c').ret
    except Opaque as e:
        raise AnalysisError('slip_vector_c: %s' % e)
    res = np.asarray(res, dtype=object)
    want = np.zeros((4, 3), dtype=object)
    want[...] = sp.Integer(0)
    for i in range(4):
        for n in range(int(nl[i, 0])):
            j = int(nl[i, n + 1])
            want[i] = want[i] - ((P1[j] - P1[i]) - (P0[j] - P0[i]))
    ctx.ob('SLIP', loc, 'slip_i = - Σ over the atom\'s own neighbours of (d_ij(current) - d_ij(reference)), also when atoms have different coordination numbers', res.shape == (4, 3) and equal(res, want, deep=False),
           'atom 1: %s' % ([sp.expand(x) for x in (res[1] - want[1])] if res.shape == (4, 3) else res.shape,), node=fn)
    ok = len(calls) == 8 and all(c[2] is B and c[3] == (True, False, True) for c in calls)
    ctx.ob('SLIP', loc, 'reference and current separations are both taken with the same cell vectors and periodicity flags (a, b, c in order)', ok, '%d separation calls' % len(calls), node=fn, key='same cell')
    # wrapper
    w = ctx.fn(SV, 'slip_vector')
    locw = SV + '::slip_vector'
    rec = []

    class Sy(PyStub):
        def __init__(self, tag, natoms=4, nb=None):
            self.tag, self.natoms = tag, natoms

            class A(PyStub):
                pos = 'pos_' + tag

            class Bx(PyStub):
                vects = 'vects_' + tag
            self.atoms, self.box, self.pbc = A(), Bx(), (tag + 'a', tag + 'b', tag + 'c')
            if nb is not None:
                self.neighbors = nb

    class NLs(PyStub):
        def __init__(self, tag):
            self.nlist = 'nlist_' + tag

    def kernel(*a):
        rec.append(a)
        return 'SLIP'
    for tag, kw, want_nl in (('neighbors given', dict(neighbors=NLs('given')), 'nlist_given'), ('cutoff given', dict(cutoff=3), 'nlist_built'), ('reference system carries a list', {}, 'nlist_attr'),
                              ('cutoff given although the reference system carries a list (the explicit request wins)', dict(cutoff=3), 'nlist_built')):
        rec.clear()
        built = []
        s0 = Sy('0', nb=NLs('attr') if 'carries a list' in tag else None)
        s1 = Sy('1')
        ev = _ev(ctx, SV, slip_vector_c=kernel, NeighborList=lambda **k: (built.append(k) or NLs('built')))
        r = _one(ev.run_fn(w, [s0, s1], dict(kw)), 'slip_vector').ret
        ok = r == 'SLIP' and len(rec) == 1 and rec[0] == ('pos_0', 'pos_1', 'vects_0', want_nl, '0a', '0b', '0c')
        if tag.startswith('cutoff given'):
            ok = ok and len(built) == 1 and built[0].get('system') is s0 and built[0].get('cutoff') == 3
        ctx.ob('SLIP', locw, '%s: the kernel gets reference positions, current positions, the reference cell and flags, and the neighbour list of the reference system' % tag, ok, str(rec)[:200], node=w, key='wrapper ' + tag)
    paths = _ev(ctx, SV, slip_vector_c=kernel).run_fn(w, [Sy('0', natoms=4), Sy('1', natoms=5)], {'cutoff': 3})
    ctx.ob('SLIP', locw, 'systems with different atom counts are refused', not [p for p in paths if p.done == 'return'], node=w, key='natoms')
    paths = _ev(ctx, SV, slip_vector_c=kernel).run_fn(w, [Sy('0'), Sy('1')], {})
    ctx.ob('SLIP', locw, 'neither neighbours nor cutoff nor a stored list: refused', not [p for p in paths if p.done == 'return'], node=w, key='no list')


def disregistry(ctx):
    fn = ctx.fn(DR, 'disregistry')
    loc = DR + '::disregistry'
    R = sp.Rational
    for tag, m, n, planepos, layer_axis in (('default m=x, n=y', [1, 0, 0], [0, 1, 0], [0, 0, 0], 1), ('m=x, n=z, plane position with a y component', [1, 0, 0], [0, 0, 1], [5, 7, 0], 2),
                                           ('m=y, n=x', [0, 1, 0], [1, 0, 0], [0, 3, 0], 0)):
        m_axis = m.index(1)
        other = 3 - m_axis - layer_axis
        pos, lab = [], []
        for ly, h in (('far below', R(-3, 2)), ('below', R(-1, 2)), ('above', R(1, 2)), ('far above', R(3, 2))):
            for x in (0, 1, 2):
                for w_ in (0, 1):
                    p = [0, 0, 0]
                    p[m_axis], p[layer_axis], p[other] = sp.Integer(x), h, sp.Integer(w_)
                    pos.append(p)
                    lab.append((ly, x, w_))
        pos = arr(pos)
        D = symarray('u', (len(pos), 3), real=True)

        class Sy(PyStub):
            class A(PyStub):
                pass
        base, disl = Sy(), Sy()
        base.atoms = Sy.A()
        base.atoms.pos = pos
        # the dislocation system's own positions differ from reference + displacement by whole box vectors wherever an atom was wrapped: the plain difference of positions is
        # not the displacement
        disl.atoms = Sy.A()
        disl.atoms.pos = pos + symarray('wrapped', (len(pos), 3), real=True)
        calls = []

        def displacement(system_0=None, system_1=None, box_reference='final', *args, **kw):
            # the real signature (system_0, system_1, box_reference='final'): positional or by keyword
            if box_reference != 'final':
                kw = dict(kw, box_reference=box_reference)
            calls.append((system_0, system_1, args, kw))
            return D

        def unique(a):
            vals = sorted({sp.nsimplify(v) for v in np.ravel(a)}, key=lambda v: float(v))
            return arr(vals)

        def isclose(a, b, **k):
            if is_arr(a):
                return np.array([bool(sp.simplify(x - b) == 0) for x in np.ravel(a)], dtype=object)
            return bool(sp.simplify(sp.sympify(a) - b) == 0)

        def interp(x, xp, fp):
            xp_ = [sp.nsimplify(v) for v in np.ravel(xp)]
            out = []
            for v in np.ravel(x):
                v = sp.nsimplify(v)
                if v in xp_:
                    out.append(np.ravel(fp)[xp_.index(v)])
                else:
                    raise Opaque('interpolation off the sample points')
            return arr(out)
        ev = _ev(ctx, DR, displacement=displacement)
        ev.np_override = {'numpy.unique': unique, 'numpy.isclose': isclose, 'numpy.interp': interp, 'numpy.union1d': lambda a, b: unique(list(np.ravel(a)) + list(np.ravel(b)))}
        try:
            r = _one(ev.run_fn(fn, [base, disl], dict(m=m, n=n, planepos=planepos)), 'disregistry').ret
        except WouldRaise as e:
            ctx.ob('DISREGISTRY', loc, '%s: runs to completion on a model bilayer' % tag, False, str(e), node=fn, key=tag + ' runs')
            continue
        except Opaque as e:
            raise AnalysisError('disregistry (%s): %s' % (tag, e))
        coord, dis = r
        ok = [sp.nsimplify(v) for v in np.ravel(coord)] == [0, 1, 2]
        want = []
        for x in (0, 1, 2):
            up = [D[i] for i, l in enumerate(lab) if l[0] == 'above' and l[1] == x]
            dn = [D[i] for i, l in enumerate(lab) if l[0] == 'below' and l[1] == x]
            want.append(sum(up[1:], up[0]) / len(up) - sum(dn[1:], dn[0]) / len(dn))
        ok = ok and np.shape(dis) == (3, 3) and equal(np.asarray(dis, dtype=object), np.array(want, dtype=object), deep=False)
        ctx.ob('DISREGISTRY', loc, '%s: the two atomic layers adjoining the plane (height planepos·n) are used; at each coordinate along m the result is mean displacement above minus below' % tag, bool(ok),
               'coord %s' % ([str(v) for v in np.ravel(coord)],), node=fn, key=tag)
        okc = len(calls) == 1 and calls[0][0] is base and calls[0][1] is disl and not calls[0][2] and calls[0][3].get('box_reference', 'final') == 'final'
        ctx.ob('DISREGISTRY', loc, '%s: displacements are taken from the reference to the dislocation system through the final (dislocation) box' % tag, okc, str(calls[0][2:]) if calls else 'no call', node=fn, key=tag + ' displacement')


def ddvectors(ctx):
    fn = ctx.fn(DD, 'DifferentialDisplacement.solve')
    cls = ctx.fn(DD, 'DifferentialDisplacement')
    loc = DD + '::DifferentialDisplacement.solve'
    for ref in (0, 1):
        calls = []

        class Sy(PyStub):
            def __init__(self, tag):
                self.tag, self.natoms = tag, 3

                class A(PyStub):
                    pos = symarray('x' + tag, (3, 3), real=True)
                self.atoms = A()

            def dvect(self, i, nb):
                calls.append((self.tag, int(i), tuple(nb)))
                return symarray('d%s_%d_' % (self.tag, int(i)), (len(nb), 3), real=True)

            def neighborlist(self, cutoff=None):
                calls.append(('neighborlist', self.tag, cutoff))
                return NL()

        class NL(PyStub):
            def __getitem__(self, i):
                return [[1, 2], [], [0]][int(i)]
        s0, s1 = Sy('0'), Sy('1')
        obj = SymObj(cls, {'system0': None, 'system1': None, 'reference': None, 'neighbors': None}, 'self')
        ev = _ev(ctx, DD)
        try:
            ev.run_fn(fn, [obj], dict(system0=s0, system1=s1, cutoff=5, reference=ref))
        except Opaque as e:
            raise AnalysisError('DifferentialDisplacement.solve: %s' % e)
        dd = obj.attrs.get('_DifferentialDisplacement__ddvectors')
        want = np.concatenate([symarray('d1_%d_' % i, (k, 3), real=True) - symarray('d0_%d_' % i, (k, 3), real=True) for i, k in ((0, 2), (2, 1))])
        ok = dd is not None and np.shape(dd) == (3, 3) and equal(np.asarray(dd, dtype=object), want, deep=False)
        ctx.ob('DDVECTORS', loc, 'reference=%d: for every atom with neighbours the differential displacement is (current separation) - (reference separation) to the same neighbours, atoms without neighbours skipped' % ref, bool(ok), node=fn, key='dd %d' % ref)
        dv = [c for c in calls if c[0] in ('0', '1')]
        ok = dv == [('0', 0, (1, 2)), ('1', 0, (1, 2)), ('0', 2, (0,)), ('1', 2, (0,))]
        ctx.ob('DDVECTORS', loc, 'reference=%d: both separations use the same atom and the same neighbour ids' % ref, ok, str(dv), node=fn, key='same pairs %d' % ref)
        nlc = [c for c in calls if c[0] == 'neighborlist']
        ctx.ob('DDVECTORS', loc, 'reference=%d: a cutoff builds the neighbour list on system%d' % (ref, ref), nlc == [('neighborlist', str(ref), 5)], str(nlc), node=fn, key='nl %d' % ref)
        ac = obj.attrs.get('_DifferentialDisplacement__arrowcenters')
        src = s0 if ref == 0 else s1
        w0 = src.atoms.pos[0] + symarray('d%d_0_' % ref, (2, 3), real=True) / 2
        ok = ac is not None and equal(np.asarray(ac, dtype=object)[:2], w0, deep=False)
        ctx.ob('DDVECTORS', loc, 'reference=%d: arrows are centred halfway along the pair separation in the reference system chosen' % ref, bool(ok), node=fn, key='centers %d' % ref)


    # deferred solve: the systems given to the constructor are kept on the object; a later solve(cutoff=...) without them uses the stored reference AND the stored current one
    calls = []

    class Sy2(PyStub):
        def __init__(self, tag):
            self.tag, self.natoms = tag, 2

            class A(PyStub):
                pos = symarray('x' + tag, (2, 3), real=True)
            self.atoms = A()

        def dvect(self, i, nb):
            calls.append((self.tag, int(i), tuple(nb)))
            return symarray('d%s_%d_' % (self.tag, int(i)), (len(nb), 3), real=True)

        def neighborlist(self, cutoff=None):
            return NL2()

    class NL2(PyStub):
        def __getitem__(self, i):
            return [[1], [0]][int(i)]
    s0, s1 = Sy2('0'), Sy2('1')
    obj = SymObj(cls, {'_DifferentialDisplacement__system0': s0, '_DifferentialDisplacement__system1': s1, '_DifferentialDisplacement__reference': 0, '_DifferentialDisplacement__neighbors': None}, 'self')
    try:
        _ev(ctx, DD).run_fn(fn, [obj], dict(cutoff=5))
    except Opaque as e:
        raise AnalysisError('DifferentialDisplacement.solve (stored systems): %s' % e)
    dd = obj.attrs.get('_DifferentialDisplacement__ddvectors')
    want = np.concatenate([symarray('d1_%d_' % i, (1, 3), real=True) - symarray('d0_%d_' % i, (1, 3), real=True) for i in (0, 1)])
    ok = dd is not None and np.shape(dd) == (2, 3) and equal(np.asarray(dd, dtype=object), want, deep=False) and {c[0] for c in calls} == {'0', '1'}
    ctx.ob('DDVECTORS', loc, 'systems omitted in the call: the stored reference and the stored current system are both used (differential displacement = current - reference, not reference - reference)', bool(ok),
           'separations taken in systems %s' % sorted({c[0] for c in calls}), node=fn, key='dd stored systems')


def displacement(ctx):
    c02.pairing(ctx)


def p_vectors(ctx):
    """Strain.set_p_vectors: which reference vectors each atom gets, and the rotation of crystal-frame vectors into the system frame"""
    fn = ctx.fn(ST, 'Strain.set_p_vectors')
    cls = ctx.fn(ST, 'Strain')
    loc = ST + '::Strain.set_p_vectors'
    P1 = symarray('p', (4, 3), real=True)
    T = symarray('t', (3, 3), real=True)

    class Sys(PyStub):
        natoms = 2
    for tag, arg, axes in (('one set shared by all atoms', [P1], None), ('one set shared by all atoms, given in crystal axes', [P1], 'AXES'),
                           ('one set given without the outer list', P1, None), ('one set per atom, given in crystal axes', [P1, 2 * P1], 'AXES')):
        obj = SymObj(cls, {'system': Sys()}, 'self')
        ev = SymEval(module_aliases(ctx.mod(ST)))
        seen = []
        ev.globals = {'axes_check': lambda a: (seen.append(a) or T)}
        try:
            r = [q for q in ev.run_fn(fn, [obj, arg], {'axes': axes}) if q.done == 'return']
        except (Opaque, WouldRaise) as e:
            raise AnalysisError('Strain.set_p_vectors (%s): %s' % (tag, e))
        got = obj.attrs.get('_Strain__p_vectors')
        ok = len(r) == 1 and got is not None and np.shape(got) == (2, 4, 3)
        if ok:
            for i in range(2):
                base = (arg[i] if (isinstance(arg, list) and len(arg) == 2) else P1)
                want = np.array([[sum(T[a_, j] * base[k, j] for j in range(3)) for a_ in range(3)] for k in range(4)], dtype=object) if axes is not None else base
                ok = ok and equal(np.asarray(got[i], dtype=object), want, deep=False)
            ok = ok and (seen == ['AXES'] if axes is not None else seen == [])
        ctx.ob('P-VECTORS', loc, '%s: every atom gets its reference set%s' % (tag, ', each vector rotated into the system frame by the checked axes matrix (p\' = T·p)' if axes is not None else ' unchanged'), bool(ok),
               node=fn, key='p_vectors ' + tag)
    # build_p_vectors from a reference system: one set per atom, also when the atoms have different numbers of neighbours (Ca and F in fluorite, a free surface)
    bfn = ctx.fn(ST, 'Strain.build_p_vectors')
    for tag, coord in (('equal coordination (4, 4)', (4, 4)), ('unequal coordination (4 and 2 neighbours)', (4, 2))):
        sets = [symarray('d%d_' % i, (coord[i], 3), real=True) for i in range(2)]

        class Base(PyStub):
            natoms = 2

            def dvect(self, i, js):
                return sets[int(i)].copy()
        nl = [list(range(coord[0])), list(range(coord[1]))]
        obj = SymObj(cls, {}, 'self')
        ev = SymEval(module_aliases(ctx.mod(ST)))
        try:
            r = [q for q in ev.run_fn(bfn, [obj, Base()], {'neighbors': nl}) if q.done == 'return']
            why = ''
        except WouldRaise as e:
            r, why = [], str(e)[:200]
        except Opaque as e:
            raise AnalysisError('Strain.build_p_vectors (%s): %s' % (tag, e))
        got = obj.attrs.get('_Strain__p_vectors')
        ok = len(r) == 1 and got is not None and len(got) == 2 and all(np.shape(got[i]) == (coord[i], 3) and equal(np.asarray(got[i], dtype=object), sets[i], deep=False) for i in range(2))
        ctx.ob('P-VECTORS', ST + '::Strain.build_p_vectors', '%s: every atom gets the separations to its own neighbours in the reference system as its reference set' % tag, bool(ok), why, node=bfn, key='build ' + tag)
    # the legacy function applies the same rotation
    nfn = ctx.fn(NY, 'nye_tensor')
    rot = [s_ for s_ in nfn.body if isinstance(s_, ast.If) and norm(s_.test).replace(' ', '') == 'axesisnotNone']
    ctx.need(len(rot) == 1, 'nye_tensor: the axes transformation of p_vectors is not recognisable')
    PV = symarray('q', (2, 4, 3), real=True)
    ev = SymEval(module_aliases(ctx.mod(NY)))
    ev.globals = {'axes_check': lambda a: T}
    q = ev.block([rot[0]], [Path({'axes': 'AXES', 'p_vectors': PV})])
    got = q[0].env.get('p_vectors') if len(q) == 1 else None
    want = np.array([[[sum(T[a_, j] * PV[i, k, j] for j in range(3)) for a_ in range(3)] for k in range(4)] for i in range(2)], dtype=object)
    ctx.ob('P-VECTORS', NY + '::nye_tensor', 'the legacy function rotates crystal-frame reference vectors the same way (p\' = T·p)', got is not None and np.shape(got) == (2, 4, 3) and equal(np.asarray(got, dtype=object), want, deep=False),
           node=rot[0], key='p_vectors legacy')


def run(ctx):
    ctx.explanation = ('C17: the strain/rotation/invariant/Nye kernels are evaluated on symbolic tensors; solve_G, solve_nye, slip_vector, disregistry and the differential-displacement '
                       'solver are evaluated on model systems with recording stubs (which atoms, which neighbours, which cell, argument roles of the least-squares fits, cache clearing); '
                       'match_pq is evaluated on model vector sets. Cython sources are read through Cython\'s parser. Not decided: numerical recovery of a deformation by least squares.')
    from .. import readonly
    ctx.run_rules([kernels, nye, solve_g, match, slip, disregistry, ddvectors, displacement, p_vectors, lambda c: c02.minfold(c, c02.DV, 'dvect_c', True), lambda c: readonly.rule(c, ST, floor=10) and None, lambda c: readonly.rule(c, SV, floor=1) and None])
