"""READONLY-FLOW: no read-only array reaches a writable typed buffer.

A Cython parameter or local declared `double[:, ::1] x` (no `const`) acquires a *writable* buffer: handing it a read-only
ndarray raises ValueError('buffer source array is read-only') at the call, whatever the function then does with it.  numpy
documents which operations return read-only results: `np.broadcast_to` (always), and every view of such a result (basic
indexing, `.T`, `reshape`, `np.asarray` / `np.asanyarray` / `np.ascontiguousarray` when no copy is needed).

The rule is a may-analysis over one .pyx module:
  sources   np.broadcast_to(...)
  carriers  views of a source, local names bound to one anywhere in the function (flow-insensitive), object attributes
            `self.a` assigned one in any method, properties / module functions returning one
  cleansers anything that allocates: np.array, .copy(), arithmetic, np.inner/dot/..., np.empty ... (every other expression)
  sinks     arguments bound to a non-const memoryview parameter of a function of the module; locals declared as
            non-const memoryviews
Each sink is an obligation; a sink reachable from a source is reported with the chain of carriers.
"""
import ast

from .core import norm

VIEW_CALLS = {'np.asarray', 'np.asanyarray', 'np.ascontiguousarray', 'numpy.asarray', 'numpy.asanyarray', 'np.atleast_1d', 'np.atleast_2d', 'np.squeeze', 'np.ravel', 'np.reshape', 'np.transpose'}
VIEW_METHODS = {'reshape', 'view', 'transpose', 'squeeze', 'ravel', 'swapaxes'}
VIEW_ATTRS = {'T', 'real', 'imag'}
SOURCES = {'np.broadcast_to', 'numpy.broadcast_to'}


class _Mod:
    def __init__(self, mod):
        self.funcs = {}        # qualified name -> FunctionDef
        self.cls_of = {}
        for n in mod.body:
            if isinstance(n, ast.FunctionDef):
                self.funcs[n.name] = n
            elif isinstance(n, ast.ClassDef):
                for m in n.body:
                    if isinstance(m, ast.FunctionDef):
                        # property getters win over setters of the same name
                        if any(norm(d).endswith('.setter') for d in m.decorator_list):
                            self.funcs['%s.%s=' % (n.name, m.name)] = m
                        else:
                            self.funcs['%s.%s' % (n.name, m.name)] = m
                        self.cls_of[m] = n
        self.ro_attr = {}      # (class name, attribute) -> reason
        self.ro_ret = {}       # qualified name -> reason
        self.ro_local = {}     # (qualified name, local) -> reason

    def mangled(self, cls, attr):
        return attr


def _why(e, M, qn, cls):
    """reason string if expression e may evaluate to a read-only array, else None"""
    if isinstance(e, ast.Call):
        f = norm(e.func)
        if f in SOURCES:
            return '%s at line %d' % (f, e.lineno)
        if f in VIEW_CALLS and e.args:
            w = _why(e.args[0], M, qn, cls)
            return w and '%s <- %s(...) at line %d (no copy when the type already matches)' % (w, f, e.lineno)
        if isinstance(e.func, ast.Attribute) and e.func.attr in VIEW_METHODS:
            w = _why(e.func.value, M, qn, cls)
            return w and '%s <- .%s() view' % (w, e.func.attr)
        if f in M.ro_ret:
            return '%s <- returned by %s' % (M.ro_ret[f], f)
        if isinstance(e.func, ast.Attribute) and isinstance(e.func.value, ast.Name) and e.func.value.id == 'self' and cls is not None:
            k = '%s.%s' % (cls.name, e.func.attr)
            if k in M.ro_ret:
                return '%s <- returned by %s' % (M.ro_ret[k], k)
        return None
    if isinstance(e, ast.Subscript):
        sl = e.slice
        fancy = isinstance(sl, (ast.List, ast.Compare, ast.ListComp)) or (isinstance(sl, ast.Tuple) and any(isinstance(x, (ast.List, ast.Compare)) for x in sl.elts))
        if fancy:
            return None
        w = _why(e.value, M, qn, cls)
        return w and '%s <- view %s' % (w, norm(e)[:40])
    if isinstance(e, ast.Attribute):
        if e.attr in VIEW_ATTRS:
            w = _why(e.value, M, qn, cls)
            return w and '%s <- .%s view' % (w, e.attr)
        if isinstance(e.value, ast.Name) and e.value.id == 'self' and cls is not None:
            if (cls.name, e.attr) in M.ro_attr:
                return '%s <- self.%s' % (M.ro_attr[(cls.name, e.attr)], e.attr)
            k = '%s.%s' % (cls.name, e.attr)
            if k in M.ro_ret and any(norm(d) == 'property' for d in M.funcs[k].decorator_list):
                return '%s <- property %s' % (M.ro_ret[k], e.attr)
        return None
    if isinstance(e, ast.Name):
        return M.ro_local.get((qn, e.id))
    if isinstance(e, ast.IfExp):
        return _why(e.body, M, qn, cls) or _why(e.orelse, M, qn, cls)
    return None


def _own_nodes(fn):
    """nodes of fn, not of functions nested in it"""
    stack = list(fn.body)
    while stack:
        n = stack.pop()
        yield n
        for c in ast.iter_child_nodes(n):
            if not isinstance(c, (ast.FunctionDef, ast.Lambda, ast.ClassDef)):
                stack.append(c)


def analyse(mod):
    M = _Mod(mod)
    changed = True
    rounds = 0
    while changed and rounds < 20:
        changed = False
        rounds += 1
        for qn, fn in M.funcs.items():
            cls = M.cls_of.get(fn)
            for n in _own_nodes(fn):
                if isinstance(n, ast.Assign):
                    w = _why(n.value, M, qn, cls)
                    if not w:
                        continue
                    for t in n.targets:
                        if isinstance(t, ast.Name) and (qn, t.id) not in M.ro_local:
                            M.ro_local[(qn, t.id)] = '%s <- %s (line %d)' % (w, t.id, n.lineno)
                            changed = True
                        elif isinstance(t, ast.Attribute) and isinstance(t.value, ast.Name) and t.value.id == 'self' and cls is not None and (cls.name, t.attr) not in M.ro_attr:
                            M.ro_attr[(cls.name, t.attr)] = '%s <- stored in self.%s by %s (line %d)' % (w, t.attr, fn.name, n.lineno)
                            changed = True
                elif isinstance(n, ast.Return) and n.value is not None and not qn.endswith('='):
                    w = _why(n.value, M, qn, cls)
                    if w and qn not in M.ro_ret:
                        M.ro_ret[qn] = w
                        changed = True
    return M


def sinks(mod, M):
    """(node, description, reason-or-None) for every writable-buffer sink of the module"""
    out = []
    for qn, fn in M.funcs.items():
        cls = M.cls_of.get(fn)
        for n in _own_nodes(fn):
            if isinstance(n, ast.Call):
                f = norm(n.func)
                callee = M.funcs.get(f)
                if callee is None and isinstance(n.func, ast.Attribute) and isinstance(n.func.value, ast.Name) and n.func.value.id == 'self' and cls is not None:
                    callee = M.funcs.get('%s.%s' % (cls.name, n.func.attr))
                if callee is None:
                    continue
                params = [a for a in callee.args.args if a.arg != 'self']
                for i, a in enumerate(n.args):
                    if i < len(params) and params[i].annotation is not None and getattr(params[i].annotation, 'value', None) == 'memoryview':
                        out.append((n, '%s: argument %s of %s(...) is acquired as a writable buffer (parameter `%s` is not const)' % (qn, norm(a)[:40], callee.name, params[i].arg), _why(a, M, qn, cls)))
                for k in n.keywords:
                    for prm in params:
                        if prm.arg == k.arg and prm.annotation is not None and getattr(prm.annotation, 'value', None) == 'memoryview':
                            out.append((n, '%s: argument %s=%s of %s(...) is acquired as a writable buffer' % (qn, k.arg, norm(k.value)[:40], callee.name), _why(k.value, M, qn, cls)))
            elif isinstance(n, ast.Assign) and getattr(n, '_ctype', None) == 'memoryview':
                out.append((n, '%s: local `%s` is a writable buffer view of %s' % (qn, norm(n.targets[0]), norm(n.value)[:40]), _why(n.value, M, qn, cls)))
    return out


def rule(ctx, rel, floor=1, name='READONLY-FLOW'):
    mod = ctx.mod(rel)
    M = analyse(mod)
    sk = sinks(mod, M)
    for node, desc, why in sk:
        ctx.ob(name, '%s::%s' % (rel, desc.split(':')[0]), desc.split(': ', 1)[1] + ': it never receives a read-only array (np.broadcast_to result or a view of one)', why is None, why or '', node=node,
               key='%s %s' % (desc.split(':')[0], norm(node)[:60]))
    ctx.floor('%s/%s' % (name, rel), len(sk), floor)
    return M, sk
