"""Registered mutants / benign twins (checker validation).  Text edits against today's tree; stale ones are skipped."""
from .selftest import mutant, benign

RK = 'atomman/mep/integrator/rungekutta.py'
EU = 'atomman/mep/integrator/euler.py'
CD = 'atomman/mep/gradient/central_difference.py'
BP = 'atomman/mep/BasePath.py'
ISM = 'atomman/mep/ISMPath.py'
LOG = 'atomman/lammps/Log.py'

# ------------------------------------------------------------------ C20
mutant('C20', 'regress-F11 rk stages against the rate', RK, 'coord + 0.5 * k1', 'coord - 0.5 * k1', 'LINEAR-ORDER')
mutant('C20', 'rk weight 1/3 -> 1/6', RK, 'k2 / 3', 'k2 / 6', 'LINEAR-ORDER')
mutant('C20', 'rk last stage uses half step', RK, 'coord + k3', 'coord + 0.5 * k3', 'LINEAR-ORDER')
mutant('C20', 'euler drops timestep', EU, 'coord + timestep * ratefxn(coord, **kwargs)', 'coord + ratefxn(coord, **kwargs)', 'LINEAR-ORDER')
mutant('C20', 'regress-F12 default kwargs rejected', BP, '        elif isinstance(gradientkwargs, dict):', '        if isinstance(gradientkwargs, dict):', 'DEFAULT-FEASIBLE')
mutant('C20', 'cdiff divides by shift not 2*shift', CD, '(fplus - fminus) / (2 * shift)', '(fplus - fminus) / shift', 'CDIFF')
mutant('C20', 'cdiff forward difference', CD, 'fminus = fxn(coord - δ)', 'fminus = fxn(coord)', 'CDIFF')
mutant('C20', 'cdiff stores into wrong slot', CD, 'gradient[..., i] =', 'gradient[..., ndim - 1 - i] =', 'CDIFF')
mutant('C20', 'climb rate sign', ISM, '- grad_energy + 2 * np.einsum', '- grad_energy - 2 * np.einsum', 'STRING-STEP')
mutant('C20', 'climb rate factor', ISM, '+ 2 * np.einsum(', '+ np.einsum(', 'STRING-STEP')
mutant('C20', 'rate moves uphill', ISM, 'return - grad_energy', 'return grad_energy', 'STRING-STEP')
mutant('C20', 'maxima non-strict', ISM, '(energy[1:-1] > energy[:-2]) & (energy[1:-1] > energy[2:])', '(energy[1:-1] >= energy[:-2]) & (energy[1:-1] > energy[2:])', 'STRING-STEP')
mutant('C20', 'climbpoints truncation off by one', ISM, 'climbindex = climbindex[:climbpoints]', 'climbindex = climbindex[:climbpoints+1]', 'STRING-STEP')
mutant('C20', 'climb uses whole-path tangents', ISM, 'τ=τ[climbindex])', 'τ=τ[:len(climbindex)])', 'STRING-STEP')
mutant('C20', 'tangent ends swapped', ISM, 'τ[0] = diff[0]', 'τ[0] = diff[-1]', 'STRING-STEP')
benign('C20', 'rk reordered sum', RK, 'coord + k1 / 6 + k2 / 3 + k3 / 3 + k4 / 6', 'coord + (k1 + 2 * k2 + 2 * k3 + k4) / 6')
benign('C20', 'rk half as division', RK, 'coord + 0.5 * k1', 'coord + k1 / 2')
benign('C20', 'euler commuted', EU, 'coord + timestep * ratefxn(coord, **kwargs)', 'ratefxn(coord, **kwargs) * timestep + coord')
benign('C20', 'cdiff half factor', CD, '(fplus - fminus) / (2 * shift)', '0.5 * (fplus - fminus) / shift')
benign('C20', 'kwargs elif chain as nested else', BP, '        elif isinstance(gradientkwargs, dict):\n            self.__gradientkwargs = gradientkwargs\n        else:\n            raise TypeError(\'gradientkwargs must be None or a dict\')',
       '        else:\n            if isinstance(gradientkwargs, dict):\n                self.__gradientkwargs = gradientkwargs\n            else:\n                raise TypeError(\'gradientkwargs must be None or a dict\')')

# ------------------------------------------------------------------ C19
mutant('C19', 'regress-F10 delim_whitespace', LOG, "sep=r'\\s+'", 'delim_whitespace=True', 'API-COMPAT')
mutant('C19', 'regress-F10 DataFrame.append', LOG, 'pd.concat([performance.columns.to_frame().T, performance], ignore_index=True)', 'performance.columns.to_frame().T.append(performance,ignore_index=True)', 'API-COMPAT')
mutant('C19', 'header off by one', LOG, 'thermo_headers.append(i+1)', 'thermo_headers.append(i)', 'LINE-ACCOUNT')
mutant('C19', 'footer off by one', LOG, 'thermo_footers.append(i-1)', 'thermo_footers.append(i)', 'LINE-ACCOUNT')
mutant('C19', 'counter counts blank lines', LOG, "                if len(line.split()) == 0:\n                    continue\n", "                if len(line.split()) == 0:\n                    i += 1\n                    continue\n", 'LINE-ACCOUNT')
mutant('C19', 'blank lines no longer skipped by pandas', LOG, "sep=r'\\s+',\n                                skip_blank_lines=True", "sep=r'\\s+',\n                                skip_blank_lines=False", 'LINE-ACCOUNT')
mutant('C19', 'nrows one short', LOG, "nrows=footer-header,\n                                sep=r'\\s+'", "nrows=footer-header-1,\n                                sep=r'\\s+'", 'LINE-ACCOUNT')
mutant('C19', 'no final footer for truncated logs', LOG, '            thermo_footers.append(i)\n', '            pass\n', 'LINE-ACCOUNT')
mutant('C19', 'one memory banner dropped', LOG, "thermo_start_trigger = ['Memory usage per processor =',\n                             'Per MPI rank memory allocation (min/avg/max) =']", "thermo_start_trigger = ['Per MPI rank memory allocation (min/avg/max) =']", 'TRIGGERS')
mutant('C19', 'banner slice too short', LOG, "line[:8] == 'LAMMPS ('", "line[:7] == 'LAMMPS ('", 'TRIGGERS')
mutant('C19', 'month table wrong', LOG, "'Sep': 9, 'Oct': 10", "'Sep': 9, 'Oct': 9", 'TRIGGERS')
mutant('C19', 'version overwritten by later banner', LOG, " and self.lammps_version is None", "", 'TRIGGERS')
mutant('C19', 'append=False keeps version', LOG, "            self.__simulations = []\n            self.__lammps_version = None\n", "            self.__simulations = []\n", 'APPEND')
mutant('C19', 'performance offset after append', LOG, 'self.simulations[i+j].performance', 'self.simulations[i].performance', 'APPEND')
mutant('C19', 'flatten first keeps duplicates', LOG, 'thermo[thermo.Step > merged_df.Step.max()]', 'thermo[thermo.Step >= merged_df.Step.max()]', 'FLATTEN')
mutant('C19', 'flatten last keeps duplicates', LOG, 'merged_df[merged_df.Step < thermo.Step.min()]', 'merged_df[merged_df.Step <= thermo.Step.min()]', 'FLATTEN')
mutant('C19', 'flatten last uses max', LOG, 'merged_df[merged_df.Step < thermo.Step.min()]', 'merged_df[merged_df.Step < thermo.Step.max()]', 'FLATTEN')
benign('C19', 'header offset commuted', LOG, 'thermo_headers.append(i+1)', 'thermo_headers.append(1 + i)')
benign('C19', 'flatten first comparison flipped', LOG, 'thermo[thermo.Step > merged_df.Step.max()]', 'thermo[merged_df.Step.max() < thermo.Step]')
benign('C19', 'blank test via strip', LOG, 'if len(line.split()) == 0:', 'if not line.strip():')
