"""Registered mutants / benign twins (checker validation).  Text edits against today's tree; stale ones are skipped."""
from .selftest import mutant, benign

RK = 'atomman/mep/integrator/rungekutta.py'
EU = 'atomman/mep/integrator/euler.py'
CD = 'atomman/mep/gradient/central_difference.py'
BP = 'atomman/mep/BasePath.py'
ISM = 'atomman/mep/ISMPath.py'
LOG = 'atomman/lammps/Log.py'

# ------------------------------------------------------------------ C20
mutant('C20', 'regress-F11 rk stages against the rate', RK, 'coord + 0.5 * k1', 'coord - 0.5 * k1', 'LINEAR-ORDER')
mutant('C20', 'rk weight 1/3 -> 1/6', RK, 'k2 / 3', 'k2 / 6', 'LINEAR-ORDER')
mutant('C20', 'rk last stage uses half step', RK, 'coord + k3', 'coord + 0.5 * k3', 'LINEAR-ORDER')
mutant('C20', 'euler drops timestep', EU, 'coord + timestep * ratefxn(coord, **kwargs)', 'coord + ratefxn(coord, **kwargs)', 'LINEAR-ORDER')
mutant('C20', 'regress-F12 default kwargs rejected', BP, '        elif isinstance(gradientkwargs, dict):', '        if isinstance(gradientkwargs, dict):', 'DEFAULT-FEASIBLE')
mutant('C20', 'cdiff divides by shift not 2*shift', CD, '(fplus - fminus) / (2 * shift)', '(fplus - fminus) / shift', 'CDIFF')
mutant('C20', 'cdiff forward difference', CD, 'fminus = fxn(coord - δ)', 'fminus = fxn(coord)', 'CDIFF')
mutant('C20', 'cdiff stores into wrong slot', CD, 'gradient[..., i] =', 'gradient[..., ndim - 1 - i] =', 'CDIFF')
mutant('C20', 'climb rate sign', ISM, '- grad_energy + 2 * np.einsum', '- grad_energy - 2 * np.einsum', 'STRING-STEP')
mutant('C20', 'climb rate factor', ISM, '+ 2 * np.einsum(', '+ np.einsum(', 'STRING-STEP')
mutant('C20', 'rate moves uphill', ISM, 'return - grad_energy', 'return grad_energy', 'STRING-STEP')
mutant('C20', 'maxima non-strict', ISM, '(energy[1:-1] > energy[:-2]) & (energy[1:-1] > energy[2:])', '(energy[1:-1] >= energy[:-2]) & (energy[1:-1] > energy[2:])', 'STRING-STEP')
mutant('C20', 'climbpoints truncation off by one', ISM, 'climbindex = climbindex[:climbpoints]', 'climbindex = climbindex[:climbpoints+1]', 'STRING-STEP')
mutant('C20', 'climb uses whole-path tangents', ISM, 'τ=τ[climbindex])', 'τ=τ[:len(climbindex)])', 'STRING-STEP')
mutant('C20', 'tangent ends swapped', ISM, 'τ[0] = diff[0]', 'τ[0] = diff[-1]', 'STRING-STEP')
benign('C20', 'rk reordered sum', RK, 'coord + k1 / 6 + k2 / 3 + k3 / 3 + k4 / 6', 'coord + (k1 + 2 * k2 + 2 * k3 + k4) / 6')
benign('C20', 'rk half as division', RK, 'coord + 0.5 * k1', 'coord + k1 / 2')
benign('C20', 'euler commuted', EU, 'coord + timestep * ratefxn(coord, **kwargs)', 'ratefxn(coord, **kwargs) * timestep + coord')
benign('C20', 'cdiff half factor', CD, '(fplus - fminus) / (2 * shift)', '0.5 * (fplus - fminus) / shift')
benign('C20', 'kwargs elif chain as nested else', BP, '        elif isinstance(gradientkwargs, dict):\n            self.__gradientkwargs = gradientkwargs\n        else:\n            raise TypeError(\'gradientkwargs must be None or a dict\')',
       '        else:\n            if isinstance(gradientkwargs, dict):\n                self.__gradientkwargs = gradientkwargs\n            else:\n                raise TypeError(\'gradientkwargs must be None or a dict\')')

# ------------------------------------------------------------------ C19
mutant('C19', 'regress-F10 delim_whitespace', LOG, "sep=r'\\s+'", 'delim_whitespace=True', 'API-COMPAT')
mutant('C19', 'regress-F10 DataFrame.append', LOG, 'pd.concat([performance.columns.to_frame().T, performance], ignore_index=True)', 'performance.columns.to_frame().T.append(performance,ignore_index=True)', 'API-COMPAT')
mutant('C19', 'header off by one', LOG, 'thermo_headers.append(i+1)', 'thermo_headers.append(i)', 'READ')
mutant('C19', 'footer off by one', LOG, 'thermo_footers.append(i-1)', 'thermo_footers.append(i)', 'READ')
mutant('C19', 'counter counts blank lines', LOG, "                if len(line.split()) == 0:\n                    continue\n", "                if len(line.split()) == 0:\n                    i += 1\n                    continue\n", 'READ')
mutant('C19', 'blank lines no longer skipped by pandas', LOG, "sep=r'\\s+',\n                                skip_blank_lines=True", "sep=r'\\s+',\n                                skip_blank_lines=False", 'READ')
mutant('C19', 'nrows one short', LOG, "nrows=footer-header,\n                                sep=r'\\s+'", "nrows=footer-header-1,\n                                sep=r'\\s+'", 'READ')
mutant('C19', 'no final footer for truncated logs', LOG, '            thermo_footers.append(i)\n', '            pass\n', 'READ')
mutant('C19', 'one memory banner dropped', LOG, "thermo_start_trigger = ['Memory usage per processor =',\n                             'Per MPI rank memory allocation (min/avg/max) =']", "thermo_start_trigger = ['Per MPI rank memory allocation (min/avg/max) =']", 'READ')
mutant('C19', 'banner slice too short', LOG, "line[:8] == 'LAMMPS ('", "line[:7] == 'LAMMPS ('", 'TRIGGERS')
mutant('C19', 'month table wrong', LOG, "'Sep': 9, 'Oct': 10", "'Sep': 9, 'Oct': 9", 'TRIGGERS')
mutant('C19', 'version overwritten by later banner', LOG, " and self.lammps_version is None", "", 'APPEND')
mutant('C19', 'append=False keeps version', LOG, "            self.__simulations = []\n            self.__lammps_version = None\n", "            self.__simulations = []\n", 'APPEND')
mutant('C19', 'performance offset after append', LOG, 'self.simulations[performance_runs[i]+j].performance', 'self.simulations[performance_runs[i]].performance', 'APPEND')
mutant('C19', 'flatten first keeps duplicates', LOG, 'thermo[thermo.Step > merged_df.Step.max()]', 'thermo[thermo.Step >= merged_df.Step.max()]', 'FLATTEN')
mutant('C19', 'flatten last keeps duplicates', LOG, 'merged_df[merged_df.Step < thermo.Step.min()]', 'merged_df[merged_df.Step <= thermo.Step.min()]', 'FLATTEN')
mutant('C19', 'flatten last uses max', LOG, 'merged_df[merged_df.Step < thermo.Step.min()]', 'merged_df[merged_df.Step < thermo.Step.max()]', 'FLATTEN')
benign('C19', 'header offset commuted', LOG, 'thermo_headers.append(i+1)', 'thermo_headers.append(1 + i)')
benign('C19', 'flatten first comparison flipped', LOG, 'thermo[thermo.Step > merged_df.Step.max()]', 'thermo[merged_df.Step.max() < thermo.Step]')
benign('C19', 'blank test via strip', LOG, 'if len(line.split()) == 0:', 'if not line.strip():')

# ------------------------------------------------------------------ C09
UC = 'atomman/unitconvert.py'
ST = 'atomman/lammps/style.py'
mutant('C09', 'regress-F9 length from energy without sqrt', UC, 'nu.m = (J * nu.s**2 / nu.kg)**0.5', 'nu.m = (J * nu.s**2 / nu.kg)', 'WORKING-UNITS')
mutant('C09', 'time from energy without sqrt', UC, 'nu.s = (nu.kg * nu.m**2 / J)**0.5', 'nu.s = (nu.kg * nu.m**2 / J)', 'WORKING-UNITS')
mutant('C09', 'mass from energy inverted', UC, 'nu.kg = J * nu.s**2 / nu.m**2', 'nu.kg = J * nu.m**2 / nu.s**2', 'WORKING-UNITS')
mutant('C09', 'stale unit table in energy arm', UC, 'nu.kg = J * nu.s**2 / nu.m**2', "nu.kg = J * unit['s']**2 / unit['m']**2", 'WORKING-UNITS')
mutant('C09', 'length ratio inverted', UC, "nu.m = unit['m'] / unit[kwargs['length']]", "nu.m = unit[kwargs['length']] / unit['m']", 'WORKING-UNITS')
mutant('C09', 'charge uses wrong base', UC, "nu.C = unit['C'] / unit[kwargs['charge']]", "nu.C = unit['C'] / unit[kwargs['time']]", 'WORKING-UNITS')
mutant('C09', 'energy arm order: time checked before mass', UC, "            if 'mass' not in kwargs:\n                nu.kg = J * nu.s**2 / nu.m**2\n            elif 'time' not in kwargs:", "            if 'time' not in kwargs and 'mass' in kwargs:\n                pass\n            elif 'mass' not in kwargs:\n                nu.kg = J * nu.s**2 / nu.m**2\n            elif 'time' not in kwargs:", 'WORKING-UNITS')
mutant('C09', 'five units accepted', UC, 'if len(kwargs) > 4:', 'if len(kwargs) > 5:', 'WORKING-UNITS')
mutant('C09', 'parse: all * before /', UC, "            if terms[1] == '*':\n                value = [terms[0] * terms[2]]\n                terms = value + terms[3:]\n            elif terms[1] == '/':\n                value = [terms[0] / terms[2]]\n                terms = value + terms[3:]",
       "            if '*' in terms:\n                c = terms.index('*')\n                value = [terms[c-1] * terms[c+1]]\n                terms = terms[:c-1] + value + terms[c+2:]\n            elif terms[1] == '/':\n                value = [terms[0] / terms[2]]\n                terms = value + terms[3:]", 'PRECEDENCE')
mutant('C09', 'parse: division right operand swapped', UC, 'value = [terms[0] / terms[2]]', 'value = [terms[2] / terms[0]]', 'PRECEDENCE')
mutant('C09', 'parse: power after multiplication', UC, "        while '^' in terms:\n            c = terms.index('^')\n            value = [terms[c-1] ** terms[c+1]]\n            terms = terms[:c-1] + value + terms[c+2:]\n", "", 'PRECEDENCE')
mutant('C09', 'parse: paren substring off by one', UC, 'terms.append(parse(units[i+1:j]))', 'terms.append(parse(units[i+1:j-1]))', 'PRECEDENCE')
mutant('C09', 'get_in_units multiplies', UC, 'return np.asarray(value) / units', 'return np.asarray(value) * units', 'INVERSE-PAIR')
mutant('C09', "parse('scaled') not neutral", UC, "if units is None or units == 'scaled':", "if units is None:", 'INVERSE-PAIR')
mutant('C09', 'nano torque has force dimension', ST, "params['torque'] =              '1e-18*g*nm^2/ns^2'", "params['torque'] =              '1e-18*g*nm/ns^2'", 'STYLE-DIM')
mutant('C09', 'metal time is fs', ST, "        params['time'] =                'ps'\n        params['energy'] =              'eV'", "        params['time'] =                'fs'\n        params['energy'] =              'eV'", 'STYLE-SI')
mutant('C09', 'real pressure in bar', ST, "params['pressure'] =            'atm'", "params['pressure'] =            'bar'", 'STYLE-SI')
mutant('C09', 'micro density wrong power', ST, "'pg/um^3'", "'pg/um^2'", 'STYLE-DIM')
mutant('C09', 'ang-mom derived without mass', ST, "f\"{params['length']}*{params['velocity']}*{params['mass']}\"", "f\"{params['length']}*{params['velocity']}\"", 'STYLE-DIM')
mutant('C09', 'cgs velocity typo', ST, "'cm/s'", "'cm*s'", 'STYLE-DIM')
mutant('C09', 'model drops shape for rank 2', UC, "        datamodel['shape'] = list(shape)\n", "", 'MODEL-KEYS')
mutant('C09', 'value_unit ignores unit', UC, "        value = set_in_units(term['value'], unit)", "        value = np.asarray(term['value'])", 'MODEL-KEYS')
benign('C09', 'sqrt via np.sqrt', UC, 'nu.m = (J * nu.s**2 / nu.kg)**0.5', 'nu.m = np.sqrt(J * nu.s**2 / nu.kg)')
benign('C09', 'mass arm regrouped', UC, 'nu.kg = J * nu.s**2 / nu.m**2', 'nu.kg = J * (nu.s / nu.m)**2')
benign('C09', 'style string regrouped', ST, "'kcal/(mol*angstrom)'", "'kcal/mol/angstrom'")
benign('C09', 'set_in_units commuted', UC, 'return np.asarray(value) * units', 'return units * np.asarray(value)')
benign('C09', 'reduction: product assigned directly', UC, "                value = [terms[0] * terms[2]]\n                terms = value + terms[3:]", "                terms = [terms[0] * terms[2]] + terms[3:]")

# ------------------------------------------------------------------ C01
BOX = 'atomman/core/Box.py'
PLANE = 'atomman/region/Plane.py'
mutant('C01', 'regress-F1 shape test on raw argument', BOX, "        value = np.asarray(cartpos, dtype=float)\n        if value.shape[-1] != 3:", "        value = np.asarray(cartpos, dtype=float)\n        if cartpos.shape[-1] != 3:", 'ARRAYLIKE')
mutant('C01', 'set_abc xz uses alpha', BOX, 'xz = c * np.cos(beta * np.pi / 180)', 'xz = c * np.cos(alpha * np.pi / 180)', 'CHAIN')
mutant('C01', 'set_abc yz missing cross term', BOX, 'yz = (b * c * np.cos(alpha * np.pi / 180) - xy * xz) / ly', 'yz = (b * c * np.cos(alpha * np.pi / 180)) / ly', 'CHAIN')
mutant('C01', 'set_hi_los origin swapped', BOX, 'origin = [xlo, ylo, zlo]', 'origin = [xlo, zlo, ylo]', 'CHAIN')
mutant('C01', 'set_lengths tilt transposed', BOX, "                      [xy, ly,  0.0],\n                      [xz, yz,  lz]]", "                      [xy, ly,  0.0],\n                      [yz, xz,  lz]]", 'CHAIN')
mutant('C01', 'beta getter uses wrong rows', BOX, 'return vect_angle(self.__vects[0], self.__vects[2])', 'return vect_angle(self.__vects[1], self.__vects[2])', 'GETTERS')
mutant('C01', 'yhi uses lz', BOX, 'return self.__origin[1] + self.__vects[1,1]', 'return self.__origin[1] + self.__vects[2,2]', 'GETTERS')
mutant('C01', 'volume without abs', BOX, 'return np.abs(np.dot(self.avect, np.cross(self.bvect, self.cvect)))', 'return np.dot(self.avect, np.cross(self.bvect, self.cvect))', 'GETTERS')
mutant('C01', 'cache reset made conditional', BOX, "        # Reset reciprocal_vects\n        self.__reciprocal_vects = None", "        if np.any(self.__vects == 0.0):\n            self.__reciprocal_vects = None", 'CACHE')
mutant('C01', 'cache reset dropped', BOX, "        # Reset reciprocal_vects\n        self.__reciprocal_vects = None", "        # Reset reciprocal_vects", 'CACHE')
mutant('C01', 'clean-up threshold absolute', BOX, 'np.isclose(self.__vects/abs(self.__vects).max(), 0.0, atol=1e-9)', 'np.isclose(self.__vects, 0.0, atol=1e-9)', 'CACHE')
mutant('C01', 'second writer of the vectors', BOX, "        lx = xhi - xlo\n        ly = yhi - ylo", "        self.__vects[0, 0] = xhi - xlo\n        lx = xhi - xlo\n        ly = yhi - ylo", 'CACHE')
mutant('C01', 'vects getter hands out storage', BOX, '        return deepcopy(self.__vects)', '        return self.__vects', 'CACHE')
mutant('C01', 'reciprocal without transpose', BOX, 'self.__reciprocal_vects = np.linalg.inv(self.vects).T', 'self.__reciprocal_vects = np.linalg.inv(self.vects)', None)
mutant('C01', 'c2r forgets origin', BOX, 'return np.inner((value - self.origin), self.reciprocal_vects)', 'return np.inner(value, self.reciprocal_vects)', 'CONVERT')
mutant('C01', 'c2r shifts the caller array in place', BOX, "        return np.inner((value - self.origin), self.reciprocal_vects)", "        value -= self.origin\n        return np.inner(value, self.reciprocal_vects)", 'CONVERT')
mutant('C01', 'plane normal flipped', BOX, 'Plane(np.cross(self.avect, self.cvect), self.origin),', 'Plane(np.cross(self.cvect, self.avect), self.origin),', 'INSIDE')
mutant('C01', 'upper face point wrong', BOX, 'Plane(np.cross(self.cvect, self.avect), self.origin + self.bvect),', 'Plane(np.cross(self.cvect, self.avect), self.origin + self.avect),', 'INSIDE')
mutant('C01', 'inside drops a face', BOX, "               & planes[4].below(pos, inclusive=inclusive)\n", "", 'INSIDE')
mutant('C01', 'one face ignores inclusive', BOX, '& planes[3].below(pos, inclusive=inclusive)', '& planes[3].below(pos)', 'INSIDE')
mutant('C01', 'below inclusive operators swapped', PLANE, "        if inclusive:\n            return normpos <= normpoint\n        else:\n            return normpos < normpoint", "        if inclusive:\n            return normpos < normpoint\n        else:\n            return normpos <= normpoint", 'INSIDE')
mutant('C01', 'below sums wrong axis for stacks', PLANE, 'normpos = np.inner(self.normal, pos)', 'normpos = (pos * self.normal).sum(axis=1 if pos.ndim > 1 else 0)', 'INSIDE')
mutant('C01', 'outside keeps boundary rule', 'atomman/region/Shape.py', 'return ~self.inside(pos, inclusive=not inclusive)', 'return ~self.inside(pos, inclusive=inclusive)', 'INSIDE')
benign('C01', 'a getter via np.linalg.norm', BOX, 'return (self.__vects[0,0]**2 + self.__vects[0,1]**2 + self.__vects[0,2]**2)**0.5', 'return np.linalg.norm(self.__vects[0])')
benign('C01', 'set_abc radians helper', BOX, 'xy = b * np.cos(gamma * np.pi / 180)', 'xy = b * np.cos(np.radians(gamma))')
benign('C01', 'r2c via np.dot', BOX, 'return relpos.dot(self.vects) + self.origin', 'return self.origin + np.dot(relpos, self.vects)')
benign('C01', 'c2r via explicit inverse', BOX, 'return np.inner((value - self.origin), self.reciprocal_vects)', 'return np.dot(value - self.origin, np.linalg.inv(self.vects))')
benign('C01', 'below via tensordot-free form', PLANE, 'normpos = np.inner(self.normal, pos)', 'normpos = np.dot(pos, self.normal)')
benign('C01', 'planes with negated swapped cross', BOX, 'Plane(np.cross(self.cvect, self.bvect), self.origin),', 'Plane(-np.cross(self.bvect, self.cvect), self.origin),')

# ------------------------------------------------------------------ C02
DV = 'atomman/core/dvect.pyx'
DM = 'atomman/core/dmag.pyx'
DISP = 'atomman/core/displacement.py'
mutant('C02', 'dvect image range misses +1', DV, "    if pbc_x:\n        xl, xh = -1, 2", "    if pbc_x:\n        xl, xh = -1, 1", 'MINFOLD')
mutant('C02', 'dvect z image uses transposed vector', DV, 'z * bvects[2,j]', 'z * bvects[j,2]', 'MINFOLD')
mutant('C02', 'dvect pbc_y guards z range', DV, "    if pbc_z:\n        zl, zh = -1, 2", "    if pbc_y:\n        zl, zh = -1, 2", 'MINFOLD')
mutant('C02', 'dvect keeps the longer candidate', DV, 'if mag_test < mag_d:', 'if mag_test > mag_d:', 'MINFOLD')
mutant('C02', 'dvect update copies two components', DV, "                        for j in range(nj):\n                            dv[i,j] = test[j]", "                        for j in range(2):\n                            dv[i,j] = test[j]", 'MINFOLD')
mutant('C02', 'dmag2 magnitude drops z term', DM, 'mag2_test = d[0] * d[0] + d[1] * d[1] + d[2] * d[2]', 'mag2_test = d[0] * d[0] + d[1] * d[1]', 'MINFOLD')
mutant('C02', 'dmag2 y image along wrong vector', DM, 'y * bvects[1,j]', 'y * bvects[0,j]', 'MINFOLD')
mutant('C02', 'dmag wrapper swaps flags', DM, 'pbc[0], pbc[1], pbc[2])**0.5', 'pbc[1], pbc[0], pbc[2])**0.5', 'WRAPPER')
mutant('C02', 'dmag returns squared distance', DM, 'pbc[0], pbc[1], pbc[2])**0.5', 'pbc[0], pbc[1], pbc[2])', 'WRAPPER')
mutant('C02', 'dvect unequal lengths no longer refused', DV, "    elif len(pos_0) != len(pos_1):\n        raise ValueError('Incompatible pos lengths')", "", 'WRAPPER')
mutant('C02', 'displacement initial mixes pbc', DISP, 'system_0.box, system_0.pbc)', 'system_0.box, system_1.pbc)', 'PAIRING')
mutant('C02', 'displacement reversed', DISP, "disp = dvect(system_0.atoms.pos, system_1.atoms.pos, system_1.box, system_1.pbc)", "disp = dvect(system_1.atoms.pos, system_0.atoms.pos, system_1.box, system_1.pbc)", 'PAIRING')
mutant('C02', 'System.dmag ignores pbc', 'atomman/core/System.py', 'vects = dmag(pos_0, pos_1, self.box, self.pbc)', 'vects = dmag(pos_0, pos_1, self.box, (True, True, True))', 'PAIRING')
benign('C02', 'dvect candidate terms reordered', DV, "                                   + x * bvects[0,j] \n                                   + y * bvects[1,j] \n                                   + z * bvects[2,j])", "                                   + z * bvects[2,j] \n                                   + x * bvects[0,j] \n                                   + y * bvects[1,j])")
benign('C02', 'dvect comparison flipped', DV, 'if mag_test < mag_d:', 'if mag_d > mag_test:')
benign('C02', 'dmag2 squares via power', DM, 'mag2_test = d[0] * d[0] + d[1] * d[1] + d[2] * d[2]', 'mag2_test = d[0]**2 + d[1]**2 + d[2]**2')

# ------------------------------------------------------------------ C03
NL = 'atomman/core/nlist.pyx'
NLP = 'atomman/core/NeighborList.py'
mutant('C03', 'regress-F2 sweep list before ghosts', [(NL, "    # Identify all bins with real or ghost atoms\n    realbins = unique_rows2(xyzindex)\n", ""), (NL, "    # Create iterators based on pbc\n    if pbc_a:", "    realbins = unique_rows2(xyzindex)\n    # Create iterators based on pbc\n    if pbc_a:")], None, None, 'SWEEP-FILL')
mutant('C03', 'growth copies one column too few', NL, 'for k in range(maxneighbors + 1):', 'for k in range(maxneighbors):', 'INSERTION')
mutant('C03', 'ghost filter index slip', NL, 'newposv[i, 2] < supermax[2]', 'newposv[i, 1] < supermax[2]', 'GEOMETRY')
mutant('C03', 'cutoff test non-strict', NL, 'if dmag2[w] < cutoff2:', 'if dmag2[w] <= cutoff2:', 'CONFIGURATIONS')
mutant('C03', 'bins smaller than cutoff', NL, 'binsize = cutoff\n', 'binsize = 0.9 * cutoff\n', 'GEOMETRY')
mutant('C03', 'padding below cutoff', NL, 'supermin[j] -= 1.01 * cutoff', 'supermin[j] -= 0.5 * cutoff', 'GEOMETRY')
# ('stencil skips upper face test' was registered here until round 10: the half stencil never looks upwards along z and the padded superbox leaves the outermost bins empty,
#  so dropping that test changes nothing -- the bin-block evaluation of STENCIL rightly stays silent on it)
mutant('C03', 'stencil stops one early', NL, 'for dx in range(-1, 2):', 'for dx in range(-1, 1):', 'STENCIL')
mutant('C03', 'growth test only on first row', NL, 'if neighbors[uindex, 0] > maxneighbors or neighbors[vindex, 0] > maxneighbors:', 'if neighbors[uindex, 0] > maxneighbors:', 'INSERTION')
mutant('C03', 'asymmetric store', NL, 'neighbors[vindex, vj] = uindex', 'neighbors[vindex, vj] = vindex', 'INSERTION')
mutant('C03', 'insertion point not first-greater', NL, 'elif neighbors[uindex, j] > vindex:', 'elif neighbors[uindex, j] < vindex:', 'INSERTION')
mutant('C03', 'self pairs allowed', NL, 'if uindex != vindex:', 'if True:', 'CONFIGURATIONS')
mutant('C03', 'flags swapped into dmag2_c', NL, 'dmag2_c(upos, vpos, vects, pbc_a, pbc_b, pbc_c)', 'dmag2_c(upos, vpos, vects, pbc_b, pbc_a, pbc_c)', 'CONFIGURATIONS')
mutant('C03', 'dmag2 kernel transposed c vector', 'atomman/core/dmag.pyx', 'z * bvects[2,j]', 'z * bvects[j,2]', 'MINFOLD')
mutant('C03', 'getitem ignores coord', NLP, 'return self.__neighbors[key, :self.coord[key]]', 'return self.__neighbors[key]', 'NEIGHBORLIST')
mutant('C03', 'coord from wrong column', NLP, "        self.__coord = self.__nlist[:, 0]", "        self.__coord = self.__nlist[:, 1]", 'NEIGHBORLIST')
mutant('C03', 'load count off by one', NLP, 'self.__coord[i] = len(terms) - 1', 'self.__coord[i] = len(terms)', 'NEIGHBORLIST')
mutant('C03', 'unique rows over the flattened table', NL, "return np.unique(a.view(np.dtype((np.void, a.dtype.itemsize*a.shape[1])))).view(a.dtype).reshape(-1, a.shape[1])", "return np.unique(a).reshape(-1, 1).repeat(a.shape[1], axis=1)", 'UNIQUE-ROWS')
mutant('C03', 'unique rows keyed on two columns', NL, "return np.unique(a.view(np.dtype((np.void, a.dtype.itemsize*a.shape[1])))).view(a.dtype).reshape(-1, a.shape[1])", "return np.unique(a[:, :2], axis=0)", 'UNIQUE-ROWS')
mutant('C03', 'pairs start two after u', NL, "            for w, v in enumerate(range(u+1, longlist.shape[0])):\n                if dmag2[w] < cutoff2:\n                    vindex = longlist[v]", "            for w, v in enumerate(range(u+1, longlist.shape[0])):\n                if dmag2[w] < cutoff2 and w > 0:\n                    vindex = longlist[v]", 'CONFIGURATIONS')
mutant('C03', 'ghost images only upwards along a', NL, "    if pbc_a:\n        xl, xh = -1, 2", "    if pbc_a:\n        xl, xh = 0, 2", 'GEOMETRY')
benign('C03', 'unique rows along axis 0', NL, "return np.unique(a.view(np.dtype((np.void, a.dtype.itemsize*a.shape[1])))).view(a.dtype).reshape(-1, a.shape[1])", "return np.unique(a, axis=0)")
benign('C03', 'sweep compares through a mask', NL, "            for w, v in enumerate(range(u+1, longlist.shape[0])):\n                if dmag2[w] < cutoff2:\n                    vindex = longlist[v]", "            within = np.asarray(dmag2) < cutoff2\n            for w in range(within.shape[0]):\n                if within[w]:\n                    vindex = longlist[u + 1 + w]")
benign('C03', 'padding a bit larger', NL, 'supermin[j] -= 1.01 * cutoff', 'supermin[j] -= 1.05 * cutoff')
benign('C03', 'cutoff test flipped', NL, 'if dmag2[w] < cutoff2:', 'if cutoff2 > dmag2[w]:')

# ------------------------------------------------------------------ C05
SYS = 'atomman/core/System.py'
NRM = 'atomman/lammps/normalize.py'
mutant('C05', 'wrap flags non-periodic direction too', SYS, "            if self.pbc[i]:\n                imageflags[:, i] = np.floor(spos[:, i])", "            if True:\n                imageflags[:, i] = np.floor(spos[:, i])", 'WRAP')
mutant('C05', 'wrap rounds instead of floor', SYS, 'imageflags[:, i] = np.floor(spos[:, i])', 'imageflags[:, i] = np.rint(spos[:, i])', 'WRAP')
mutant('C05', 'wrap upper bound elif', SYS, "                if max >= maxs[i]: ", "                elif max >= maxs[i]: ", 'WRAP')
mutant('C05', 'wrap origin via enlarged vectors', SYS, "        origin = self.box.origin + mins.dot(self.box.vects) \n        avect = self.box.avect * (maxs[0] - mins[0])\n        bvect = self.box.bvect * (maxs[1] - mins[1])\n        cvect = self.box.cvect * (maxs[2] - mins[2])\n        self.box_set(avect=avect, bvect=bvect, cvect=cvect, origin=origin)",
       "        vects = self.box.vects * (maxs - mins)[:, np.newaxis]\n        origin = self.box.origin + mins.dot(vects)\n        self.box_set(vects=vects, origin=origin)", 'WRAP')
mutant('C05', 'wrap sets box before writing positions', SYS, "        self.atoms_prop('pos', value=spos, scale=True)\n        \n        # Modify box vectors and origin by new min and max", "        # Modify box vectors and origin by new min and max", 'WRAP')
mutant('C05', 'wrap holds scaled positions while enlarging', SYS, 'self.box_set(avect=avect, bvect=bvect, cvect=cvect, origin=origin)', 'self.box_set(avect=avect, bvect=bvect, cvect=cvect, origin=origin, scale=True)', 'WRAP')
mutant('C05', 'wrap adds flags', SYS, '        spos -= imageflags', '        spos += imageflags', 'WRAP')
mutant('C05', 'box_set writes before setting', SYS, "            spos = self.atoms_prop('pos', scale=True)\n            self.box.set(**kwargs)\n            self.atoms_prop('pos', value=spos, scale=True)", "            spos = self.atoms_prop('pos', scale=True)\n            self.atoms_prop('pos', value=spos, scale=True)\n            self.box.set(**kwargs)", 'BOX-SET')
mutant('C05', 'normalize flip holds scaled positions', NRM, "origin=system.box.origin + system.box.cvect)", "origin=system.box.origin + system.box.cvect, scale=True)", 'NORMALIZE')
mutant('C05', 'normalize flip keeps origin', NRM, "origin=system.box.origin + system.box.cvect)", "origin=system.box.origin)", 'NORMALIZE')
mutant('C05', 'normalize works on the input', NRM, "    system = deepcopy(system)\n", "", 'NORMALIZE')
mutant('C05', 'normalize rebuild without scale', NRM, "gamma=system.box.gamma,\n                   scale=True)", "gamma=system.box.gamma)", 'NORMALIZE')
mutant('C05', 'normalize alpha/beta swapped', NRM, 'alpha=system.box.alpha, beta=system.box.beta', 'alpha=system.box.beta, beta=system.box.alpha', 'NORMALIZE')
mutant('C05', 'normalize forgets wrap', NRM, "    system.wrap()\n", "", 'NORMALIZE')
mutant('C05', 'normalize handedness test inverted', NRM, 'system.box.cvect) < 0:', 'system.box.cvect) > 0:', 'NORMALIZE')
mutant('C05', 'reciprocal cache reset conditional', 'atomman/core/Box.py', "        # Reset reciprocal_vects\n        self.__reciprocal_vects = None", "        if np.any(self.__vects == 0.0):\n            self.__reciprocal_vects = None", 'CACHE')
benign('C05', 'wrap passes vects matrix', SYS, "        origin = self.box.origin + mins.dot(self.box.vects) \n        avect = self.box.avect * (maxs[0] - mins[0])\n        bvect = self.box.bvect * (maxs[1] - mins[1])\n        cvect = self.box.cvect * (maxs[2] - mins[2])\n        self.box_set(avect=avect, bvect=bvect, cvect=cvect, origin=origin)",
       "        origin = self.box.origin + mins.dot(self.box.vects)\n        vects = self.box.vects * (maxs - mins)[:, np.newaxis]\n        self.box_set(vects=vects, origin=origin)")
benign('C05', 'wrap subtracts flags explicitly', SYS, '        spos -= imageflags', '        spos = spos - imageflags')
benign('C05', 'normalize handedness via triple product order', NRM, 'if np.dot(np.cross(system.box.avect, system.box.bvect), system.box.cvect) < 0:', 'if np.dot(system.box.avect, np.cross(system.box.bvect, system.box.cvect)) < 0:')

# ------------------------------------------------------------------ C06
AT = 'atomman/core/Atoms.py'
mutant('C06', 'regress-F3 atoms_extend rows', SYS, 'atoms.pos[self.natoms:] = self.box.position_relative_to_cartesian(value.pos)', 'atoms.pos[value.natoms:] = self.box.position_relative_to_cartesian(value.pos)', 'ROW-ALIGN')
mutant('C06', 'prop indexed read returns view', AT, '                    return deepcopy(self.view[key][index])', '                    return self.view[key][index]', 'COPY')
mutant('C06', 'prop whole read returns storage', AT, '                    return deepcopy(self.view[key])', '                    return self.view[key]', 'COPY')
mutant('C06', 'prop stores caller array', AT, '                    self.view[key] = deepcopy(value)', '                    self.view[key] = value', 'COPY')
mutant('C06', 'extend drops defaults', AT, "        for prop in newatoms.prop():\n            if prop in atoms.prop():\n                newatoms.view[prop][self.natoms:] = atoms.view[prop]\n            else:\n                newatoms.view[prop][self.natoms:] = np.zeros((natoms, ) + self.view[prop][0].shape, dtype=self.view[prop][0].dtype)",
       "        for prop in atoms.prop():\n            newatoms.view[prop][self.natoms:] = atoms.view[prop]", 'ROW-ALIGN')
mutant('C06', 'extend writes appended rows one early', AT, '                newatoms.view[prop][self.natoms:] = atoms.view[prop]', '                newatoms.view[prop][self.natoms-1:-1] = atoms.view[prop]', 'ROW-ALIGN')
mutant('C06', 'shape guard accepts wrong row count', AT, "            elif value.shape[0] != host.natoms:\n                raise ValueError('First dimension of value must be 1 or natoms')", "", 'RECT-GUARD')
mutant('C06', 'atype guard dropped', AT, "            if key == 'atype' and len(value) > 0 and np.min(value) < 1:\n                raise ValueError('atype values must be >= 1')", "", 'RECT-GUARD')
mutant('C06', 'raw dict update bypasses guard', AT, "        for key in self.view.keys():\n            self.view[key][index] = value.view[key]", "        self.view.update({key: value.view[key] for key in self.view.keys()})", 'RECT-GUARD')
mutant('C06', 'masses getter bound differs from setter', SYS, "        if len(self.__masses) < self.natypes:\n            self.masses = self.__masses", "        if len(self.__masses) < self.__atoms.natypes:\n            self.masses = self.__masses", 'TYPE-LISTS')
mutant('C06', 'masses overflow accepted', SYS, "        elif len(value) > self.natypes:\n            raise ValueError('More masses than atom types given. Either change atype values or symbols first.')", "", 'TYPE-LISTS')
mutant('C06', 'intslice drops -1 case', AT, "        if intnum == -1:\n            return slice(intnum, None)\n        else:\n            return slice(intnum, intnum+1)", "        return slice(intnum, intnum+1)", 'INDEXING')
mutant('C06', 'getitem mutates operand dtype', AT, "        for key in self.view.keys():\n            view[key] = self.view[key][index]\n        return Atoms(**view)", "        for key in self.view.keys():\n            self.view[key][:] = self.view[key]\n            view[key] = self.view[key][index]\n        return Atoms(**view)", 'PRESERVE')
mutant('C06', 'atoms_df scales in place', SYS, "            if key in scale:\n                value = self.box.position_cartesian_to_relative(value)", "            if key in scale:\n                value[:] = self.box.position_cartesian_to_relative(value)", 'PRESERVE')
benign('C06', 'prop copies via np.array', AT, '                    return deepcopy(self.view[key][index])', '                    return np.array(self.view[key][index])')
benign('C06', 'extend zeros via zeros_like rows', AT, "newatoms.view[prop][self.natoms:] = np.zeros((natoms, ) + self.view[prop][0].shape, dtype=self.view[prop][0].dtype)", "newatoms.view[prop][self.natoms:] = 0")

# ------------------------------------------------------------------ C04
MIL = 'atomman/tools/miller.py'
C2P = 'atomman/dump/conventional_to_primitive/dump.py'
P2C = 'atomman/dump/primitive_to_conventional/dump.py'
mutant('C04', 'supersize offsets transposed', SYS, 'test[:] = np.arange(mults[0])\n        x = test.T.flatten()', 'test[:] = np.arange(mults[0])\n        x = test.flatten()', 'SUPERSIZE')
mutant('C04', 'supersize origin shift uses upper bound', SYS, 'origin += vects[i] * sizes[i][0]', 'origin += vects[i] * sizes[i][1]', 'SUPERSIZE')
mutant('C04', 'supersize positions not rescaled', SYS, '            spos[:,i] /= mults[i]\n', '', 'SUPERSIZE')
mutant('C04', 'supersize offset scale wrong axis', SYS, 'np.array([1 / mults[0], 1 / mults[1], 1 / mults[2]])', 'np.array([1 / mults[0], 1 / mults[2], 1 / mults[1]])', 'SUPERSIZE')
mutant('C04', 'supersize zero multiplier accepted', SYS, "            if mults[i] == 0:\n                raise ValueError('Cannot multiply system dimension by zero')\n", "", 'SUPERSIZE')
mutant('C04', 't2 row copied from t1', MIL, "    lattice_vectors['t2'] = np.array([[ -1.0,  1.0,  0.0],\n                                      [  0.0, -1.0,  1.0],", "    lattice_vectors['t2'] = np.array([[ -1.0,  1.0,  0.0],\n                                      [  0.0,  1.0, -1.0],", 'CENTERING')
mutant('C04', 'i-centering sign', MIL, "    lattice_vectors['i'] = np.array([[  0.5,  0.5,  0.5],\n                                     [ -0.5,  0.5, -0.5],", "    lattice_vectors['i'] = np.array([[  0.5,  0.5,  0.5],\n                                     [ -0.5,  0.5,  0.5],", 'CENTERING')
mutant('C04', 'basis table for b wrong', C2P, "        relpos = np.array([[0.0, 0.0, 0.0],\n                           [0.5, 0.0, 0.5]])", "        relpos = np.array([[0.0, 0.0, 0.0],\n                           [0.5, 0.5, 0.0]])", 'CENTERING')
mutant('C04', 'trigonal supercell only doubled', C2P, "        multip = 3\n", "        multip = 2\n", 'CENTERING')
mutant('C04', 'primitive cell not divided', C2P, 'box = Box(vects = p_scell.box.vects / multip)', 'box = Box(vects = p_scell.box.vects / 2)', 'CONVERSION')
mutant('C04', 'p2c uses the wrong table', P2C, 'miller.vector_conventional_to_primitive(np.identity(3),', 'miller.vector_primitive_to_conventional(np.identity(3),', 'CONVERSION')
mutant('C04', 'rotate bounding box without margin', SYS, 'a_mults = (corners[:,0].min()-1, corners[:,0].max()+1)', 'a_mults = (corners[:,0].min(), corners[:,0].max())', 'ROTATE')
mutant('C04', 'rotate misses a corner', SYS, 'corners[7] = uvws[0] + uvws[1] + uvws[2]', 'corners[7] = uvws[0] + uvws[1]', 'ROTATE')
mutant('C04', 'rotate count gate removed', SYS, "            if not search_success:\n                raise ValueError(f'Filtering failed: {newnatoms} atoms expected, {len(aindex[0])} found')\n", "", 'ROTATE')
mutant('C04', 'rotate keeps upper faces', SYS, '(spos[:, 0] >= 0.0) & (spos[:, 0] < 1.0)', '(spos[:, 0] >= 0.0) & (spos[:, 0] <= 1.0)', 'ROTATE')
mutant('C04', 'rotate passes origin that normalize drops', SYS, 'system2.box_set(vects=newvects, scale=False)', 'system2.box_set(vects=newvects, origin=self.box.origin, scale=False)', 'ORIGIN')
mutant('C04', 'rotate re-vectors holding scaled positions', SYS, 'system2.box_set(vects=newvects, scale=False)', 'system2.box_set(vects=newvects, scale=True)', 'ROTATE')
mutant('C04', 'supersize works on the stored vectors', SYS, "        vects = self.box.vects\n        origin = self.box.origin\n        spos = self.atoms_prop('pos', scale=True)", "        vects = self.box._Box__vects\n        origin = self.box.origin\n        spos = self.atoms_prop('pos', scale=True)", 'PRESERVE')
mutant('C04', 'normalize flip mirrors atoms', NRM, "origin=system.box.origin + system.box.cvect)", "origin=system.box.origin + system.box.cvect, scale=True)", 'NORMALIZE')
benign('C04', 'p-table via identity', MIL, "    lattice_vectors['p'] = np.array([[  1.0,  0.0,  0.0],\n                                     [  0.0,  1.0,  0.0],\n                                     [  0.0,  0.0,  1.0]])\n    \n    lattice_vectors['a'] = np.array([[  1.0,  0.0,  0.0],\n                                     [  0.0,  0.5,  0.5],", "    lattice_vectors['p'] = np.identity(3)\n    \n    lattice_vectors['a'] = np.array([[  1.0,  0.0,  0.0],\n                                     [  0.0,  0.5,  0.5],")
benign('C04', 'supersize reciprocal multipliers', SYS, 'np.array([1 / mults[0], 1 / mults[1], 1 / mults[2]])', '(1 / mults)')

# ------------------------------------------------------------------ C07
AD = 'atomman/dump/atom_data/dump.py'
APIF = 'atomman/dump/atom_data/atoms_prop_info.py'
VPIF = 'atomman/dump/atom_data/velocities_prop_info.py'
DD = 'atomman/dump/atom_dump/dump.py'
DPI = 'atomman/dump/atom_dump/process_prop_info.py'
TD = 'atomman/dump/table/dump.py'
TPI = 'atomman/dump/table/process_prop_info.py'
PD = 'atomman/dump/poscar/dump.py'
mutant('C07', 'regress hybrid units (atoms)', APIF, "subprop_info = atoms_prop_info(substyle, units)", "subprop_info = atoms_prop_info(substyle)", 'PROP-TABLE')
mutant('C07', 'regress hybrid units (velocities)', VPIF, "prop_info = velocities_prop_info('atomic', units)", "prop_info = velocities_prop_info('atomic')", 'PROP-TABLE')
mutant('C07', 'regress-F4 snippet units None', AD, "read_info = info_content(system, f, atom_style=atom_style, units=units)", "read_info = info_content(system, f, atom_style=None, units=None)", 'DATA-FILE')
mutant('C07', 'charge style q after xyz', APIF, """                     {"prop_name": "charge",
                      "table_name": "q",
                      "unit": lammps_unit['charge']},
                     
                     {"prop_name": "pos",
                      "table_name": ["x", "y", "z"], 
                      "unit": lammps_unit['length']}]
    
    elif atom_style == 'dipole':""", """                     {"prop_name": "pos",
                      "table_name": ["x", "y", "z"], 
                      "unit": lammps_unit['length']},
                     {"prop_name": "charge",
                      "table_name": "q",
                      "unit": lammps_unit['charge']}]
    
    elif atom_style == 'dipole':""", 'PROP-TABLE')
mutant('C07', 'sphere diameter without unit', APIF, """                     {"prop_name": "diameter",
                      "table_name": "diameter",
                      "unit": lammps_unit['length']},""", """                     {"prop_name": "diameter",
                      "table_name": "diameter"},""", 'PROP-TABLE')
mutant('C07', 'dipole mu in charge units', APIF, "\"unit\": lammps_unit['dipole']}]", "\"unit\": lammps_unit['charge']}]", 'PROP-TABLE')
mutant('C07', 'sphere velocities: angular momentum instead of angular velocity unit', VPIF, "\"unit\": lammps_unit['ang-vel']}]", "\"unit\": lammps_unit['ang-mom']}]", 'PROP-TABLE')
mutant('C07', 'wrap without image flags', AD, "imageflags = system.wrap(return_imageflags=True)", "imageflags = np.zeros((system.natoms, 3), dtype=int)\n    system.wrap()", 'DATA-FILE')
mutant('C07', 'box bounds in wrong unit', AD, "xhi = uc.get_in_units(system.box.xhi, length_unit)", "xhi = system.box.xhi", 'DATA-FILE')
mutant('C07', 'ylo yhi swapped', AD, "content += xf2 % (ylo, yhi) +' ylo yhi\\n'", "content += xf2 % (yhi, ylo) +' ylo yhi\\n'", 'DATA-FILE')
mutant('C07', 'tilt line only when xy nonzero', AD, "if xy != 0.0 or xz != 0.0 or yz != 0.0:", "if xy != 0.0:", 'DATA-FILE')
mutant('C07', 'tilt order xy yz xz', AD, "content += xf3 % (xy, xz, yz) + ' xy xz yz\\n'", "content += xf3 % (xy, yz, xz) + ' xy xz yz\\n'", 'DATA-FILE')
mutant('C07', 'image flag columns b,c swapped', AD, "extra['imageflag_b'] = imageflags[:,1]\n        extra['imageflag_c'] = imageflags[:,2]", "extra['imageflag_b'] = imageflags[:,2]\n        extra['imageflag_c'] = imageflags[:,1]", 'DATA-FILE')
mutant('C07', 'float_format not forwarded to atoms table', AD, "content += dump_table(system, prop_info=prop_info, float_format=float_format, extra=extra)", "content += dump_table(system, prop_info=prop_info, extra=extra)", 'DATA-FILE')
mutant('C07', 'natypes written from system when given', AD, "content += '%i atom types\\n' % natypes", "content += '%i atom types\\n' % system.natypes", 'DATA-FILE')
mutant('C07', 'boundary flags: p for non-periodic', AD, "bflags[system.pbc] = 'p'", "bflags[np.logical_not(system.pbc)] = 'p'", 'DATA-FILE')
mutant('C07', 'velocity table uses default units', AD, "        prop_info = velocities_prop_info(atom_style, units)\n        \n        content += dump_table(system, prop_info=prop_info, float_format=float_format)\n    \n    returns = []", "        prop_info = velocities_prop_info(atom_style)\n        \n        content += dump_table(system, prop_info=prop_info, float_format=float_format)\n    \n    returns = []", 'DATA-FILE')
mutant('C07', 'dump bounds: xlo_bound ignores xy+xz', DD, "xlo_bound = xlo + min((0.0, xy, xz, xy + xz))", "xlo_bound = xlo + min((0.0, xy, xz))", 'DUMP-FILE')
mutant('C07', 'dump bounds: yhi uses xz', DD, "yhi_bound = yhi + max((0.0, yz))", "yhi_bound = yhi + max((0.0, xz))", 'DUMP-FILE')
mutant('C07', 'dump tilt columns xz/yz swapped', DD, "content += xf3 % (ylo_bound, yhi_bound, xz)\n        content += xf3 % (zlo_bound, zhi_bound, yz)", "content += xf3 % (ylo_bound, yhi_bound, yz)\n        content += xf3 % (zlo_bound, zhi_bound, xz)", 'DUMP-FILE')
mutant('C07', 'dump pbc flags reversed order', DD, "        if system.pbc[i]:\n            content += ' pp'", "        if system.pbc[2-i]:\n            content += ' pp'", 'DUMP-FILE')
mutant('C07', 'dump orthogonal test ignores yz', DD, "is_orthogonal = (xy == 0.0 and xz == 0.0 and yz == 0.0)", "is_orthogonal = (xy == 0.0 and xz == 0.0)", 'DUMP-FILE')
mutant('C07', 'dump natoms header off', DD, "content += '%i\\n' % (system.natoms)", "content += '%i\\n' % (system.natoms - 1)", 'DUMP-FILE')
mutant('C07', 'table: conversion multiplies', TD, "df[pname + istr] = uc.get_in_units(df[pname + istr], prop['unit'])", "df[pname + istr] = uc.set_in_units(df[pname + istr], prop['unit'])", 'TABLE')
mutant('C07', 'table: scaled columns not scaled', TD, "df = system.atoms_df(scale)", "df = system.atoms_df()", 'TABLE')
mutant('C07', 'table: ids start at 0', TD, "df['a_id'] = range(1, natoms+1)", "df['a_id'] = range(natoms)", 'TABLE')
mutant('C07', 'table: column order by frame not request', TD, "df = df.rename(columns=key_rename)[list(key_rename.values())]", "df = df.rename(columns=key_rename)[sorted(key_rename.values())]", 'TABLE')
mutant('C07', 'table_dump: own ids overwritten', DD, "    if 'atom_id' not in df:\n        df['atom_id'] = range(1, natoms+1)", "    df['atom_id'] = range(1, natoms+1)", 'TABLE')
mutant('C07', 'table_dump: float_format dropped', DD, "return df.to_csv(path_or_buf=f, sep=sep, index=None, header=False,\n                     float_format=float_format, lineterminator='\\n')", "return df.to_csv(path_or_buf=f, sep=sep, index=None, header=False,\n                     lineterminator='\\n')", 'TABLE')
mutant('C07', 'resolver: default shape from table names off', TPI, "                prop['shape'] = (numtnames, )", "                prop['shape'] = (numtnames - 1, )", 'RESOLVER')
mutant('C07', 'standard: force column in energy units', DPI, "\"unit\": lammps_unit['force']}", "\"unit\": lammps_unit['energy']}", 'RESOLVER')
mutant('C07', 'regress-F6 poscar cartesian not scaled', PD, "    if scale is False:\n        pos = pos / box_scale\n", "", 'POSCAR')
mutant('C07', 'poscar lattice multiplied by scale', PD, "vects = system.box.vects / box_scale", "vects = system.box.vects * box_scale", 'POSCAR')
mutant('C07', 'poscar counts skip last type', PD, "for i in range(1, system.natypes+1):\n        count = counts[uatype==i]", "for i in range(1, system.natypes):\n        count = counts[uatype==i]", 'POSCAR')
mutant('C07', 'poscar positions not grouped by type', PD, "    for a in range(1, system.natypes+1):\n        for p in pos[atype==a]:\n            poscar_string += '\\n'+ threexf % tuple(p)", "    for p in pos:\n        poscar_string += '\\n'+ threexf % tuple(p)", 'POSCAR')
mutant('C07', 'poscar k not recognised as cartesian', PD, "if coordstyle[0] in 'cCkK':", "if coordstyle[0] in 'cC':", 'POSCAR')
benign('C07', 'box line via f-string label', AD, "content += xf2 % (xlo, xhi) +' xlo xhi\\n'", "content += xf2 % (xlo, xhi) + ' xlo' + ' xhi\\n'")
benign('C07', 'dump bounds via two-arg min', DD, "ylo_bound = ylo + min((0.0, yz))", "ylo_bound = ylo + min(0.0, yz)")
benign('C07', 'dump x bounds as sum of minima', DD, "xlo_bound = xlo + min((0.0, xy, xz, xy + xz))", "xlo_bound = xlo + min(0.0, xy) + min(0.0, xz)")
benign('C07', 'tilt test as any', AD, "if xy != 0.0 or xz != 0.0 or yz != 0.0:", "if not (xy == 0.0 and xz == 0.0 and yz == 0.0):")
benign('C07', 'poscar scale by reciprocal', PD, "pos = pos / box_scale", "pos = pos * (1 / box_scale)")

# ------------------------------------------------------------------ seeded-change regressions (C09 memo)
_MEMO = [(UC, "def build_unit():", "_parsed = {}\n\ndef build_unit():"),
         (UC, "    elif isinstance(units, str):\n", "    elif isinstance(units, str):\n        if units in _parsed:\n            return _parsed[units]\n"),
         (UC, "        return terms[0]\n", "        _parsed[units] = terms[0]\n        return terms[0]\n")]
mutant('C09', 'parse memo cleared only on named reset', _MEMO + [(UC, "        nu.reset_units('SI')\n        build_unit()\n", "        nu.reset_units('SI')\n        build_unit()\n        _parsed.clear()\n")], None, None, 'DERIVED-STATE')
mutant('C09', 'parse memo never cleared', _MEMO, None, None, 'SHARED-STATE')
benign('C09', 'parse memo cleared on every reset', _MEMO + [(UC, "    # Generate random base working units\n", "    _parsed.clear()\n    # Generate random base working units\n")], None, None)

# ------------------------------------------------------------------ C08
LD = 'atomman/load/atom_data/load.py'
L_API = 'atomman/load/atom_data/atoms_prop_info.py'
L_VPI = 'atomman/load/atom_data/velocities_prop_info.py'
LDD = 'atomman/load/atom_dump/load.py'
L_DPI = 'atomman/load/atom_dump/process_prop_info.py'
LT = 'atomman/load/table/load.py'
LP = 'atomman/load/poscar/load.py'
mutant('C08', 'regress hybrid units (load side)', L_API, "subprop_info = atoms_prop_info(substyle, units)", "subprop_info = atoms_prop_info(substyle)", 'TABLES-AGREE')
mutant('C08', 'reader table: dipole columns reordered', L_API, '"table_name": ["mux", "muy", "muz"]', '"table_name": ["muz", "muy", "mux"]', 'TABLES-AGREE')
mutant('C08', 'reader velocities: sphere uses ang-mom', L_VPI, "\"unit\": lammps_unit['ang-vel']}]", "\"unit\": lammps_unit['ang-mom']}]", 'TABLES-AGREE')
mutant('C08', 'reader standard table: force unit', L_DPI, "\"unit\": lammps_unit['force']}", "\"unit\": lammps_unit['energy']}", 'TABLES-AGREE')
mutant('C08', 'regress-F8 image flags not sorted by id', LD, "            imageflags = imageflags.sort_values('id')\n", "", 'DATA-READ')
mutant('C08', 'image flag shift subtracted', LD, "system.atoms.pos[:] += shift", "system.atoms.pos[:] -= shift", 'DATA-READ')
mutant('C08', 'image flag shift uses transposed vectors', LD, ".values.dot(system.box.vects)", ".values.dot(system.box.vects.T)", 'DATA-READ')
mutant('C08', 'image flags read from wrong columns', LD, "usecols=[0] + list(range(ncols, atomscolumns))", "usecols=[0] + list(range(ncols - 1, atomscolumns - 1))", 'DATA-READ')
mutant('C08', 'stray column count accepted', LD, "        elif ncols != atomscolumns:\n            raise FileFormatError(f'atom_style={atom_style} requires {ncols} or {ncols+3} Atoms table columns but {atomscolumns} found')\n", "", 'DATA-READ')
mutant('C08', 'atoms table offset off by one', LD, "atomsstart = i + 1", "atomsstart = i", 'DATA-READ')
mutant('C08', 'velocities offset off by one', LD, "velocitiesstart = i + 1", "velocitiesstart = i + 2", 'DATA-READ')
mutant('C08', 'yz tilt read from wrong token', LD, "yz = uc.set_in_units(float(terms[2]), units_dict['length'])", "yz = uc.set_in_units(float(terms[1]), units_dict['length'])", 'DATA-READ')
mutant('C08', 'zhi not converted', LD, "zhi = uc.set_in_units(float(terms[1]), units_dict['length'])", "zhi = float(terms[1])", 'DATA-READ')
mutant('C08', 'missing y bounds not refused', LD, "    if ylo is None or yhi is None:\n        raise FileFormatError('ylo, yhi box dimensions missing')\n", "", 'DATA-READ')
mutant('C08', 'missing natoms not refused', LD, "    if natoms is None:\n        raise FileFormatError('# atoms not found')\n", "", 'DATA-READ')
mutant('C08', 'missing Atoms section not refused', LD, "    if atomsstart is None:\n        raise FileFormatError('Atoms section missing')\n", "", 'DATA-READ')
mutant('C08', 'masses by line order', LD, "        masses[atype - 1] = mass", "        masses[masses.index(None)] = mass", 'DATA-READ')
mutant('C08', 'style conflict silently resolved', LD, "    elif params['atom_style'] is not None and atom_style != params['atom_style']:\n        raise ValueError(f'given atom_style of {atom_style} differs from value of {params[\"atom_style\"]} found in data')\n", "", 'DATA-READ')
mutant('C08', 'default style full', LD, "            atom_style = 'atomic'\n", "            atom_style = 'full'\n", 'DATA-READ')
mutant('C08', 'comments inside atoms table not stripped', LD, "nrows=system.natoms, comment='#',\n                        header=None, usecols=range(ncols))", "nrows=system.natoms,\n                        header=None, usecols=range(ncols))", 'DATA-READ')
mutant('C08', 'velocities read with atoms offset', LD, "prop_info=prop_info, skiprows=velocitiesstart,", "prop_info=prop_info, skiprows=velocitiesstart+1,", 'DATA-READ')
mutant('C08', 'table: rows not sorted by id', LT, "    if 'id' in df:\n        df = df.sort_values('id')\n", "", 'TABLE-READ')
mutant('C08', 'table: get instead of set units', LT, "value = uc.set_in_units(value, prop['unit'])", "value = uc.get_in_units(value, prop['unit'])", 'TABLE-READ')
mutant('C08', 'table: scaled columns not converted', LT, "            if prop['unit'] == \"scaled\":\n                value = system.box.position_relative_to_cartesian(value)\n            else:\n                value = uc.set_in_units(value, prop['unit'])", "            if prop['unit'] != \"scaled\":\n                value = uc.set_in_units(value, prop['unit'])", 'TABLE-READ')
mutant('C08', 'table: fortran-order reshape', LT, ".values.reshape((natoms,) + prop['shape'])", ".values.reshape((natoms,) + prop['shape'][::-1]).swapaxes(-1, 1) if len(prop['shape']) == 2 else df[prop['table_name']].values.reshape((natoms,) + prop['shape'])", None)
mutant('C08', 'table: nrows dropped', LT, "nrows=nrows, comment=comment", "comment=comment", 'TABLE-READ')
mutant('C08', 'dump: xlo recovered with max', LDD, "xlo = xlo - min((0.0, xy, xz, xy + xz))", "xlo = xlo - max((0.0, xy, xz, xy + xz))", 'DUMP-READ')
mutant('C08', 'dump: yhi recovered with xz', LDD, "yhi = yhi - max((0.0, yz))", "yhi = yhi - max((0.0, xz))", 'DUMP-READ')
mutant('C08', 'dump: xz and yz swapped', LDD, "                        xz = uc.set_in_units(float(terms[2]),\n                                             lammps_unit['length'])", "                        yz = uc.set_in_units(float(terms[2]),\n                                             lammps_unit['length'])", 'DUMP-READ')
mutant('C08', 'dump: pbc flags read from front', LDD, "if terms[i + len(terms) - 3] != 'pp':", "if terms[i + 3] != 'pp':", 'DUMP-READ')
mutant('C08', 'dump: fm treated periodic', LDD, "!= 'pp':", "== 'ff':", 'DUMP-READ')
mutant('C08', 'dump: table offset', LDD, "                        atomsstart = i + 1", "                        atomsstart = i", 'DUMP-READ')
mutant('C08', 'dump: bounds not converted', LDD, "zhi = uc.set_in_units(float(terms[1]), lammps_unit['length'])", "zhi = float(terms[1])", 'DUMP-READ')
mutant('C08', 'regress-F6 poscar cartesian not scaled (load)', LP, "    if scale is False:\n        pos = pos * box_scale\n", "", 'POSCAR-READ')
mutant('C08', 'poscar: cvect not scaled', LP, "cvect = np.array(lines[4].split(), dtype='float64') * box_scale", "cvect = np.array(lines[4].split(), dtype='float64')", 'POSCAR-READ')
mutant('C08', 'poscar: types start at 0', LP, "np.full(typenums[i], i+1, dtype='int64')", "np.full(typenums[i], i, dtype='int64')", 'POSCAR-READ')
mutant('C08', 'poscar: k not cartesian', LP, "if style[0] in 'cCkK':", "if style[0] in 'cC':", 'POSCAR-READ')
mutant('C08', 'poscar: positions offset by one line', LP, "        start_i = 8", "        start_i = 7", 'POSCAR-READ')
benign('C08', 'flags sorted with keyword', LD, "imageflags = imageflags.sort_values('id')", "imageflags = imageflags.sort_values(by='id')")
benign('C08', 'shift via matmul', LD, "shift = imageflags[['bx', 'by', 'bz']].values.dot(system.box.vects)", "shift = np.dot(imageflags[['bx', 'by', 'bz']].values, system.box.vects)")
benign('C08', 'dump bounds two-arg min', LDD, "ylo = ylo - min((0.0, yz))", "ylo = ylo - min(0.0, yz)")
benign('C08', 'poscar scale commuted', LP, "pos = pos * box_scale", "pos = box_scale * pos")

# ------------------------------------------------------------------ C11
ECF = 'atomman/core/ElasticConstants.py'
mutant('C11', 'Cijkl getter wrong Voigt index', ECF, "[[c[3,0],c[3,5],c[3,4]], [c[3,5],c[3,1],c[3,3]], [c[3,4],c[3,3],c[3,2]]],\n                          [[c[2,0]", "[[c[3,0],c[4,5],c[3,4]], [c[3,5],c[3,1],c[3,3]], [c[3,4],c[3,3],c[3,2]]],\n                          [[c[2,0]", 'VOIGT')
mutant('C11', 'Cij9 wrong row', ECF, "[c[4,0],c[4,1],c[4,2],c[4,3],c[4,4],c[4,5],c[4,3],c[4,4],c[4,5]],\n                         [c[5,0],c[5,1],c[5,2],c[5,3],c[5,4],c[5,5],c[5,3],c[5,4],c[5,5]]])", "[c[5,0],c[5,1],c[5,2],c[5,3],c[5,4],c[5,5],c[5,3],c[5,4],c[5,5]],\n                         [c[4,0],c[4,1],c[4,2],c[4,3],c[4,4],c[4,5],c[4,3],c[4,4],c[4,5]]])", 'VOIGT')
mutant('C11', 'Cijkl setter reads wrong shear pair', ECF, "[c[1,2,0,0], c[1,2,1,1], c[1,2,2,2], c[1,2,1,2], c[1,2,0,2], c[1,2,0,1]],", "[c[1,2,0,0], c[1,2,1,1], c[1,2,2,2], c[1,2,1,2], c[1,2,0,1], c[1,2,0,2]],", 'VOIGT')
mutant('C11', 'Sijkl getter divides rows only', ECF, "        s[:,3:] = s[:,3:]/2.\n", "", 'COMPLIANCE')
mutant('C11', 'Sijkl setter weight 2 for shear-shear', ECF, "4.*s[1,2,1,2]", "2.*s[1,2,1,2]", 'COMPLIANCE')
mutant('C11', 'transform uses transposed T on one side', ECF, "Q = np.einsum('km,ln->mnkl', T, T)", "Q = np.einsum('mk,ln->mnkl', T, T)", 'TRANSFORM')
mutant('C11', 'transform cleanup drops abs', ECF, "C[abs(C / C.max()) < tol] = 0.0", "C[C / C.max() < tol] = 0.0", 'CLEANUP')
mutant('C11', 'hexagonal C66 from C11+C12', ECF, "                c66 = (c11 - c12) / 2", "                c66 = (c11 + c12) / 2", 'CRYSTAL')
mutant('C11', 'rhombohedral sign of c14 in row 2', ECF, "[c12, c11, c13,-c14,-c15, 0.0],", "[c12, c11, c13, c14,-c15, 0.0],", 'CRYSTAL')
mutant('C11', 'rhombohedral C56 entry', ECF, "[c15,-c15, 0.0, 0.0, c44, c14],", "[c15,-c15, 0.0, 0.0, c44,-c14],", 'CRYSTAL')
mutant('C11', 'tetragonal C26 sign', ECF, "[c12, c11, c13, 0.0, 0.0,-c16],", "[c12, c11, c13, 0.0, 0.0, c16],", 'CRYSTAL')
mutant('C11', 'monoclinic C46 misplaced', ECF, "[0.0, 0.0, 0.0, c44, 0.0, c46],\n                             [c15, c25, c35, 0.0, c55, 0.0],\n                             [0.0, 0.0, 0.0, c46, 0.0, c66]])", "[0.0, 0.0, 0.0, c44, c46, 0.0],\n                             [c15, c25, c35, c46, c55, 0.0],\n                             [0.0, 0.0, 0.0, 0.0, 0.0, c66]])", 'CRYSTAL')
mutant('C11', 'isotropic (C11,nu) arm', ECF, "c44 = c11 * (1 - 2 * nu) / (2 * (1 - nu))", "c44 = c11 * (1 - 2 * nu) / (2 * (1 + nu))", 'ISOTROPIC')
mutant('C11', 'isotropic (C12,E) root sign', ECF, "c44 = (E - 3 * c12 + R) / 4", "c44 = (E - 3 * c12 - R) / 4", 'ISOTROPIC')
mutant('C11', 'isotropic (E,K) arm', ECF, "c44 = 3 * K * E / (9 * K - E)", "c44 = 3 * K * E / (9 * K + E)", 'ISOTROPIC')
mutant('C11', 'isotropic (C44,K) arm', ECF, "c12 = K - 2 * c44 / 3", "c12 = K - 2 * c44", 'ISOTROPIC')
mutant('C11', 'normalized rhombohedral C15 sign', ECF, "c_dict['C15'] = (c[0,4] - c[1,4] - c[3,5]) / 3", "c_dict['C15'] = (c[0,4] - c[1,4] + c[3,5]) / 3", 'NORMALIZED')
mutant('C11', 'normalized hexagonal C12', ECF, "c_dict['C12'] = (c[0,1] + (c[0,0] - 2*c[5,5])) / 2\n                c_dict['C13'] = (c[0,2] + c[1,2]) / 2\n                c_dict['C44']", "c_dict['C12'] = (c[0,1] + (c[0,0] - c[5,5])) / 2\n                c_dict['C13'] = (c[0,2] + c[1,2]) / 2\n                c_dict['C44']", 'NORMALIZED')
mutant('C11', 'Reuss shear coefficient', ECF, "return 15 / ( 4*(s[0,0]", "return 15 / ( 3*(s[0,0]", 'MODULI')
mutant('C11', 'Voigt bulk divisor', ECF, "+ 2*(c[0,1] + c[1,2] + c[0,2]) ) / 9", "+ 2*(c[0,1] + c[1,2] + c[0,2]) ) / 6", 'MODULI')
benign('C11', 'hexagonal c66 as half difference', ECF, "c12 = c11 - 2 * c66", "c12 = c11 - c66 - c66")
benign('C11', 'transform einsum with renamed indices', ECF, "C = np.einsum('ghij,ghmn,mnkl->ijkl', Q, self.Cijkl, Q)", "C = np.einsum('abij,abcd,cdkl->ijkl', Q, self.Cijkl, Q)")
benign('C11', 'isotropic (C11,K) rewritten', ECF, "c44 = 3 * (c11 - K) / 4", "c44 = 0.75 * (c11 - K)")

# ------------------------------------------------------------------ C16
MILF = 'atomman/tools/miller.py'
BOXF = 'atomman/core/Box.py'
CSF = 'atomman/tools/crystalsystem.py'
mutant('C16', 'vector3to4 wrong third', MILF, "newindices[..., 1] = (2 * indices[..., 1] - indices[..., 0]) / 3", "newindices[..., 1] = (2 * indices[..., 1] + indices[..., 0]) / 3", 'MAP34')
mutant('C16', 'vector4to3 wrong combination', MILF, "newindices[..., 0] = 2 * indices[..., 0] + indices[..., 1]", "newindices[..., 0] = indices[..., 0] + 2 * indices[..., 1]", 'MAP34')
mutant('C16', 'plane4to3 keeps i', MILF, "    newindices[..., 1] = indices[..., 1]\n    newindices[..., 2] = indices[..., 3]\n", "    newindices[..., 1] = indices[..., 1]\n    newindices[..., 2] = indices[..., 2]\n", 'MAP34')
mutant('C16', 'vector3to4 integer buffer', MILF, "    newindices = np.empty(indices.shape[:-1] + (4,))\n    newindices[..., 0] = (2 * indices", "    newindices = np.empty(indices.shape[:-1] + (4,), dtype=indices.dtype)\n    newindices[..., 0] = (2 * indices", 'MAP34')
mutant('C16', 'h0l product instead of lcm', MILF, "m = np.lcm(indices[0], indices[2])", "m = indices[0] * indices[2]", 'PLANE-NORMAL')
mutant('C16', 'hk0 sign from h only', MILF, "s = np.sign(indices[0] * indices[1])", "s = np.sign(indices[0])", 'PLANE-NORMAL')
mutant('C16', '0kl vectors swapped', MILF, "a_uvw = np.array([0, -m / indices[1], m / indices[2]], dtype=int)\n                b_uvw = np.array([1, 0, 0], dtype=int)", "a_uvw = np.array([1, 0, 0], dtype=int)\n                b_uvw = np.array([0, -m / indices[1], m / indices[2]], dtype=int)", 'PLANE-NORMAL')
mutant('C16', 'hkl second vector not in plane', MILF, "b_uvw = np.array([-m / indices[0], 0, m / indices[2]], dtype=int)", "b_uvw = np.array([-m / indices[0], 0, m / indices[1]], dtype=int)", 'PLANE-NORMAL')
mutant('C16', 'centering i table entry', MILF, "lattice_vectors['i'] = np.array([[  0.0, -1.0, -1.0],", "lattice_vectors['i'] = np.array([[  0.0,  1.0, -1.0],", 'CENTERING')
mutant('C16', 'reduce along first axis', MILF, "n = np.gcd.reduce(indices, axis=-1)", "n = np.gcd.reduce(indices, axis=0)", 'UTIL')
mutant('C16', 'all_indices keeps origin', MILF, "indices = indices[np.abs(indices).sum(axis=1) != 0]", "indices = indices[indices.sum(axis=1) != 0]", 'UTIL')
mutant('C16', 'fromstring fraction inverted', MILF, "fraction = float(terms[0]) / float(terms[1])", "fraction = float(terms[1]) / float(terms[0])", 'UTIL')
mutant('C16', 'fromstring angle bracket closer', MILF, "closeindex = value.index('>')", "closeindex = value.index('>') - 1", 'UTIL')
mutant('C16', 'istetragonal forgets a != c', BOXF, "        return (np.isclose(self.a, self.b, atol=atol, rtol=rtol)\n                and not np.isclose(self.a, self.c, atol=atol, rtol=rtol)", "        return (np.isclose(self.a, self.b, atol=atol, rtol=rtol)\n                and np.isclose(self.a, self.c, atol=atol, rtol=rtol)", 'FAMILY')
mutant('C16', 'hexagonal constructor gamma 60', BOXF, "return cls(a=a, b=a, c=c, alpha=90, beta=90, gamma=120)", "return cls(a=a, b=a, c=c, alpha=90, beta=90, gamma=60)", 'FAMILY')
mutant('C16', 'identify order: tetragonal before hexagonal and cubic', BOXF, "        if self.iscubic(rtol=rtol, atol=atol):\n            return 'cubic'\n        elif self.ishexagonal(rtol=rtol, atol=atol):\n            return 'hexagonal'", "        if self.ishexagonal(rtol=rtol, atol=atol):\n            return 'cubic'\n        elif self.iscubic(rtol=rtol, atol=atol):\n            return 'hexagonal'", 'FAMILY')
benign('C16', 'vector3to4 thirds as multiplication', MILF, "newindices[..., 0] = (2 * indices[..., 0] - indices[..., 1]) / 3", "newindices[..., 0] = (2 * indices[..., 0] - indices[..., 1]) * (1 / 3)")
benign('C16', 'h00 sign via product with one', MILF, "                    s = np.sign(indices[0])\n                    a_uvw = np.array([0, 1, 0], dtype=int)", "                    s = np.sign(indices[0] * 1)\n                    a_uvw = np.array([0, 1, 0], dtype=int)")

# ------------------------------------------------------------------ C10
SYSF = 'atomman/core/System.py'
ATF = 'atomman/core/Atoms.py'
mutant('C10', 'uc.model memory-order flatten', UC, "datamodel['value'] = value.flatten().tolist()", "datamodel['value'] = value.ravel(order='K').tolist()", 'UC-MODEL')
mutant('C10', 'uc.model drops unit', UC, "    if units is not None:\n        datamodel['unit'] = units\n", "", 'UC-MODEL')
mutant('C10', 'value_unit ignores shape', UC, "    if 'shape' in term:\n        shape = tuple(term['shape'])\n        value = value.reshape(shape)\n    \n    return value", "    return value", 'UC-MODEL')
mutant('C10', 'Box.model reads bvect twice', BOXF, "cvect = uc.value_unit(model['cvect'])", "cvect = uc.value_unit(model['bvect'])", 'BOX-MODEL')
mutant('C10', 'Box.model origin without unit', BOXF, "model['box']['origin']= uc.model(self.origin, length_unit)", "model['box']['origin']= uc.model(self.origin)", 'BOX-MODEL')
mutant('C10', 'Box.model read bypasses setter', BOXF, "            self.set(avect=avect, bvect=bvect, cvect=cvect, origin=origin)", "            self.__vects[:] = [avect, bvect, cvect]\n            self.__origin[:] = origin", 'BOX-MODEL')
mutant('C10', 'masses written only if all set', SYSF, "            if mass is not None:\n                addmasses = True\n                break", "            if mass is None:\n                addmasses = False\n                break\n            addmasses = True", 'SYSTEM-MODEL')
mutant('C10', 'scaled read not converted back', SYSF, "                if prop['data'].get('unit', None) == 'scaled':\n                    self.atoms.view[prop['name']] = self.box.position_relative_to_cartesian(self.atoms.view[prop['name']]) ", "                pass", 'SYSTEM-MODEL')
mutant('C10', 'scaled write converts only pos', SYSF, "            if prop['data'].get('unit', None) == 'scaled':\n                prop['data'] = uc.model(self.box.position_cartesian_to_relative(", "            if prop['data'].get('unit', None) == 'scaled' and prop['name'] == 'pos':\n                prop['data'] = uc.model(self.box.position_cartesian_to_relative(", 'SYSTEM-MODEL')
mutant('C10', 'atoms model: names sorted', ATF, "        for prop in prop_unit:\n            unit = prop_unit.get(prop, None)", "        for prop in sorted(prop_unit):\n            unit = prop_unit.get(prop, None)", 'ATOMS-MODEL')
mutant('C10', 'atoms read: data without unit', ATF, "prop[propmodel['name']] = uc.value_unit(propmodel['data'])", "prop[propmodel['name']] = np.asarray(propmodel['data']['value'])", 'ATOMS-MODEL')
mutant('C10', 'ec model read transposes nothing but drops unit', ECF, "self.Cij = uc.value_unit(model['Cij'])", "self.Cij = np.asarray(model['Cij']['value']).reshape(6, 6)", 'EC-MODEL')
benign('C10', 'masses flag via any()', SYSF, "        addmasses = False\n        for mass in self.masses:\n            if mass is not None:\n                addmasses = True\n                break\n", "        addmasses = any(mass is not None for mass in self.masses)\n")

# ------------------------------------------------------------------ C15
PTF = 'atomman/defect/point.py'
mutant('C15', 'regress dumbbell vector as position', PTF, "db_vect = np.dot(db_vect, system.box.vects)", "db_vect = system.box.position_relative_to_cartesian(db_vect)", 'DEFECT-ATOM')
mutant('C15', 'vacancy old_id overwritten', PTF, "    if 'old_id' not in d_system.atoms_prop():\n        d_system.atoms.old_id = index\n    \n    return d_system\n\ndef interstitial", "    d_system.atoms.old_id = index\n    \n    return d_system\n\ndef interstitial", 'OLD-ID')
mutant('C15', 'substitutional negative index not normalised', PTF, ("        if ptd_id < 0:\n            ptd_id += system.natoms\n        if ptd_id < 0 or ptd_id >= system.natoms:", 1), "        if ptd_id < -system.natoms or ptd_id >= system.natoms:", None)
mutant('C15', 'interstitial accepts occupied site', PTF, "    if not (len(ptd_id) == 1 and len(ptd_id[0]) == 0):", "    if not (len(ptd_id) == 1 and len(ptd_id[0]) <= 1):", 'SITE')
mutant('C15', 'interstitial default type 0', PTF, "kwargs.pop('atype', 1)", "kwargs.pop('atype', 0)", 'DEFECT-ATOM')
mutant('C15', 'interstitial position not set', PTF, "            d_system.atoms.pos[-1] = pos", "            pass", 'DEFECT-ATOM')
mutant('C15', 'dumbbell both atoms moved same way', PTF, "d_system.atoms.pos[-2] -= db_vect", "d_system.atoms.pos[-2] += db_vect", 'DEFECT-ATOM')
mutant('C15', 'dumbbell ambiguous site accepted', PTF, ("        if len(ptd_id) == 1 and len(ptd_id[0]) == 1:", 2), "        if len(ptd_id) == 1 and len(ptd_id[0]) >= 1:", None)
mutant('C15', 'substitutional moves atom to front', [(PTF, "    index.pop(ptd_id)\n    index.append(ptd_id)\n    \n", "    index.pop(ptd_id)\n    index.insert(0, ptd_id)\n    \n"), (PTF, "            d_system.atoms.atype[-1] = atype", "            d_system.atoms.atype[0] = atype")], None, None, None)
mutant('C15', 'vacancy shares atoms with input', PTF, "    d_system = System(box=deepcopy(system.box), pbc=deepcopy(system.pbc),\n                      atoms=deepcopy(system.atoms[index]),", "    d_system = System(box=system.box, pbc=system.pbc,\n                      atoms=deepcopy(system.atoms[index]),", None)
mutant('C15', 'point() drops scale for interstitial', PTF, "return interstitial(system, pos=pos, scale=scale, atol=atol, **kwargs)", "return interstitial(system, pos=pos, atol=atol, **kwargs)", 'DISPATCH')

# ------------------------------------------------------------------ C12
ISOF = 'atomman/defect/IsotropicVolterraDislocation.py'
STRF = 'atomman/defect/Stroh.py'
VDF = 'atomman/defect/VolterraDislocation.py'
SVF = 'atomman/defect/solve_volterra_dislocation.py'
mutant('C12', 'regress n unit check measures m', VDF, "np.isclose(np.linalg.norm(axis), 1.0, atol=tol, rtol=0.0)", "np.isclose(np.linalg.norm(m), 1.0, atol=tol, rtol=0.0)", 'FRAME')
mutant('C12', 'isotropic strain transform not transposed', ISOF, "        transform = np.array([self.m, self.n, self.ξ]).T\n\n        # Transform strains", "        transform = np.array([self.m, self.n, self.ξ])\n\n        # Transform strains", 'ISOTROPIC')
mutant('C12', 'isotropic screw strain sign', ISOF, "strain[..., 0, 2] = strain[..., 2, 0] = -b_s * y / (4 * np.pi * (x**2 + y**2))", "strain[..., 0, 2] = strain[..., 2, 0] = b_s * y / (4 * np.pi * (x**2 + y**2))", 'ISOTROPIC')
mutant('C12', 'isotropic sigma_zz without nu', ISOF, "stress[..., 2, 2] = nu * (stress[..., 0, 0] + stress[..., 1, 1])", "stress[..., 2, 2] = (stress[..., 0, 0] + stress[..., 1, 1])", 'ISOTROPIC')
mutant('C12', 'isotropic disp_n log coefficient', ISOF, "(-(1 - 2 * nu) / (4 * (1 - nu)) * np.log(x**2 + y**2)", "(-(1 - 2 * nu) / (2 * (1 - nu)) * np.log(x**2 + y**2)", 'ISOTROPIC')
mutant('C12', 'isotropic nu formula', ISOF, "self.__nu = (3 * bulk - 2 * self.mu) / (2 * (3 * bulk + self.mu))", "self.__nu = (3 * bulk - 2 * self.mu) / (2 * (3 * bulk - self.mu))", 'ISOTROPIC')
mutant('C12', 'theta cut not folded back', ISOF, "        theta[(theta >= np.pi)] -= 2 * np.pi\n", "", 'ISOTROPIC')
mutant('C12', 'K tensor edge coefficient', ISOF, "K_e = self.mu / (1 - self.nu)", "K_e = self.mu / (1 + self.nu)", 'ISOTROPIC')
mutant('C12', 'stroh strain prefactor', STRF, "strain = 1 / (4 * np.pi * ii) * np.einsum", "strain = 1 / (2 * np.pi * ii) * np.einsum", 'STROH')
benign('C12', 'stroh stress contraction over the other member of a minor-symmetric pair', STRF, "'a, ijkl, alk, ...a -> ...ij'", "'a, ijkl, akl, ...a -> ...ij'")
mutant('C12', 'stroh eta roles swapped', STRF, "        x = np.dot(pos, self.m)\n        y = np.dot(pos, self.n)\n\n        return (x + np.outer(self.p, y)).T", "        x = np.dot(pos, self.n)\n        y = np.dot(pos, self.m)\n\n        return (x + np.outer(self.p, y)).T", 'STROH')
mutant('C12', 'stroh NB sign', STRF, "NB = -np.linalg.inv(nn)", "NB = np.linalg.inv(nn)", 'STROH')
mutant('C12', 'stroh mn uses n twice', STRF, "mn = np.einsum('i,ijkl,l', self.m, Cijkl, self.n)", "mn = np.einsum('i,ijkl,l', self.n, Cijkl, self.n)", 'STROH')
mutant('C12', 'stroh k normalisation', STRF, "k = 1. / (2. * np.einsum('si,si->s', A, L))", "k = 1. / (np.einsum('si,si->s', A, L))", 'STROH')
mutant('C12', 'stroh K sign vector differs', STRF, "        updn = np.array([1, -1, 1, -1, 1, -1])\n\n        # Compute K_tensor", "        updn = np.array([1, 1, 1, -1, -1, -1])\n\n        # Compute K_tensor", 'STROH')
mutant('C12', 'burgers rotated with transpose', VDF, "burgers = transform.dot(burgers)", "burgers = transform.T.dot(burgers)", 'FRAME')
mutant('C12', 'burgers round-off absolute', VDF, "np.isclose(burgers / np.abs(burgers).max(), 0.0, atol = tol)", "np.isclose(burgers, 0.0, atol = tol)", 'FRAME')
mutant('C12', 'find_transform rows order', VDF, "transform = np.array([m_axis, n_axis, ξ_axis])", "transform = np.array([n_axis, m_axis, ξ_axis])", 'FRAME')
mutant('C12', 'xi = n x m', VDF, "self.__ξ = np.cross(m, n)", "self.__ξ = np.cross(n, m)", 'FRAME')
mutant('C12', 'fallback drops axes', SVF, "                                            transform=transform, axes=axes, box=box,\n                                            m=m, n=n", "                                            transform=transform, box=box,\n                                            m=m, n=n", 'DISPATCH')
mutant('C12', 'fallback on any exception', SVF, "    except ValueError:", "    except Exception:", 'DISPATCH')

# ------------------------------------------------------------------ C17
STF = 'atomman/defect/Strain.pyx'
SVP = 'atomman/defect/slip_vector.pyx'
DRF = 'atomman/defect/disregistry.py'
DDF = 'atomman/defect/DifferentialDisplacement.py'
mutant('C17', 'strain without symmetrisation factor', STF, "strain_view[i,j,k] = ((identity[j,k] - G[i,j,k]) + (identity[k,j] - G[i,k,j])) / 2.", "strain_view[i,j,k] = ((identity[j,k] - G[i,j,k]) + (identity[k,j] - G[i,k,j]))", 'KERNELS')
mutant('C17', 'rotation symmetric', STF, "rot_view[i,j,k] = ((identity[j,k] - G[i,j,k]) - (identity[k,j] - G[i,k,j])) / 2.", "rot_view[i,j,k] = ((identity[j,k] - G[i,j,k]) + (identity[k,j] - G[i,k,j])) / 2.", 'KERNELS')
mutant('C17', 'second invariant sign', STF, "- strain[i,0,1] * strain[i,1,0] ", "+ strain[i,0,1] * strain[i,1,0] ", 'KERNELS')
mutant('C17', 'nye entry indices', STF, "nye[i,1,0] = gradG[2,0,0] - gradG[0,0,2]", "nye[i,1,0] = gradG[2,0,0] - gradG[0,0,1]", 'NYE')
mutant('C17', 'dG sign', STF, "dG[j, x, y] = G[nlist[i, j+1], x, y] - G[i, x, y]", "dG[j, x, y] = G[i, x, y] - G[nlist[i, j+1], x, y]", 'NYE')
mutant('C17', 'gradG index order', STF, "gradG_view[x,y,z] = gG_view[z,y]", "gradG_view[x,y,z] = gG_view[y,z]", 'NYE')
mutant('C17', 'solve_G clears cache only with new theta', STF, "        # Initialize variables\n        self.clear_properties()\n", "        # Initialize variables\n        if theta_max is not None:\n            self.clear_properties()\n", 'SOLVE-G')
mutant('C17', 'solve_G P and Q swapped', STF, "G[i] = np.linalg.lstsq(Q[:n], P[:n], rcond=None)[0]", "G[i] = np.linalg.lstsq(P[:n], Q[:n], rcond=None)[0]", 'SOLVE-G')
mutant('C17', 'theta in radians', STF, "cos_theta_max = cos(self.theta_max * pi / 180.0)", "cos_theta_max = cos(self.theta_max)", 'SOLVE-G')
mutant('C17', 'clear_properties forgets nye', STF, "        self.__rotation = None\n        self.__nye = None\n", "        self.__rotation = None\n", 'SOLVE-G')
mutant('C17', 'match keeps farther duplicate', STF, "                    if jrad < krad:\n                        qp_pairs[k]=-1", "                    if jrad > krad:\n                        qp_pairs[k]=-1", 'MATCH')
mutant('C17', 'match picks largest angle', STF, "            if cos_theta > cos_theta_min:", "            if cos_theta < cos_theta_min:", 'MATCH')
mutant('C17', 'slip sums scratch rows', SVP, "        for n in range(coord):\n            for j in range(3):\n                slipv[i, j] -= d_1[n, j] - d_0[n, j]", "        for n in range(coordmax):\n            for j in range(3):\n                slipv[i, j] -= d_1[n, j] - d_0[n, j]", 'SLIP')
mutant('C17', 'slip sign', SVP, "slipv[i, j] -= d_1[n, j] - d_0[n, j]", "slipv[i, j] += d_1[n, j] - d_0[n, j]", 'SLIP')
mutant('C17', 'slip current positions use reference neighbour', SVP, "vpos_1[n, j] = pos_1[ni, j]", "vpos_1[n, j] = pos_0[ni, j]", 'SLIP')
mutant('C17', 'slip wrapper uses current cell', SVP, "bvects = system_0.box.vects", "bvects = system_1.box.vects", 'SLIP')
mutant('C17', 'disregistry plane height from y', DRF, "midy = np.dot(planepos, n)", "midy = planepos[1]", 'DISREGISTRY')
mutant('C17', 'disregistry below minus above', DRF, "disregistry = abovedispinterp - belowdispinterp", "disregistry = belowdispinterp - abovedispinterp", 'DISREGISTRY')
mutant('C17', 'disregistry initial box', DRF, "disp = displacement(basesystem, dislsystem)", "disp = displacement(basesystem, dislsystem, box_reference='initial')", 'DISREGISTRY')
mutant('C17', 'ddvectors sign', DDF, "ddvectors = dvectors1 - dvectors0", "ddvectors = dvectors0 - dvectors1", 'DDVECTORS')
mutant('C17', 'dd neighbour list always from system0', DDF, "self.__neighbors = neighbors = refsystem.neighborlist(cutoff=cutoff)", "self.__neighbors = neighbors = system0.neighborlist(cutoff=cutoff)", 'DDVECTORS')

# ------------------------------------------------------------------ C14
FSBF = 'atomman/defect/free_surface_basis.py'
FSF = 'atomman/defect/FreeSurface.py'
SFF = 'atomman/defect/StackingFault.py'
mutant('C14', 'h0l arm vector flipped', FSBF, "a_uvw = np.array([m / hkl[0], 0, -m / hkl[2]], dtype=int)", "a_uvw = np.array([-m / hkl[0], 0, m / hkl[2]], dtype=int)", 'PLANE-TABLE')
mutant('C14', '0kl sign from k only', FSBF, "s = np.sign(hkl[1] * hkl[2])", "s = np.sign(hkl[1])", 'PLANE-TABLE')
benign('C14', 'out-of-plane search starts at 180 (both v and -v are candidates, the minimum angle is the same)', FSBF, "c_angle = 90", "c_angle = 180")
mutant('C14', 'first in-plane vector: longest instead of shortest', FSBF, "            if mag < a_mag:\n                a_uvw = uvw", "            if mag > a_mag or a_uvw is None:\n                a_uvw = uvw", 'SEARCH')
mutant('C14', 'out-of-plane vector: largest angle', FSBF, "        elif angle < c_angle:", "        elif angle > c_angle or c_uvw is None:", 'SEARCH')
benign('C14', 'in-plane test via explicit tolerance', FSBF, "        if np.isclose(np.dot(cart, unitnormal) / mag, 0.0):\n            if mag < a_mag:", "        if np.isclose(cart.dot(unitnormal) / mag, 0.0):\n            if mag < a_mag:")
mutant('C14', 'handedness test dropped', FSBF, "if np.dot(np.cross(a_cart, cart), planenormal) > 0:", "if True:", 'SEARCH')
mutant('C14', 'cutboxvector b rows not cyclic', FSBF, "uvws = np.array([b_uvw, c_uvw, a_uvw])", "uvws = np.array([a_uvw, c_uvw, b_uvw])", 'SEARCH')
mutant('C14', 'cut a refusal weakened', FSF, "if rcell.box.bvect[0] != 0.0 or rcell.box.cvect[0] != 0.0:", "if rcell.box.bvect[0] != 0.0 and rcell.box.cvect[0] != 0.0:", 'FREE-SURFACE')
mutant('C14', 'cut c checks wrong component', FSF, "if rcell.box.avect[2] != 0.0 or rcell.box.bvect[2] != 0.0:", "if rcell.box.avect[1] != 0.0 or rcell.box.bvect[2] != 0.0:", 'FREE-SURFACE')
mutant('C14', 'shifts at the planes not between', FSF, "relshifts = rcellwidth - (coords[1:] + coords[:-1]) / 2", "relshifts = rcellwidth - coords[1:]", 'FREE-SURFACE')
mutant('C14', 'periodic copy never appended', FSF, "        coords = np.append(coords, coords[0] + rcellwidth)\n", "        pass\n", 'FREE-SURFACE')
mutant('C14', 'surface wraps before shifting', FSF, "        system.atoms.pos += shift\n        system.wrap()", "        system.wrap()\n        system.atoms.pos += shift", 'FREE-SURFACE')
mutant('C14', 'surface non-periodic in wrong direction', FSF, "system.pbc[self.cutindex] = False", "system.pbc[self.cutindex - 1] = False", 'FREE-SURFACE')
mutant('C14', 'vacuum origin moves by full width', FSF, "neworigin = system.box.origin - ovect * vacuumwidth / 2", "neworigin = system.box.origin - ovect * vacuumwidth", 'FREE-SURFACE')
mutant('C14', 'faultpos_rel forgets origin', SFF, "self.__faultpos_cart = (self.system.box.origin[self.cutindex] \n                              + self.faultpos_rel ", "self.__faultpos_cart = (0.0 \n                              + self.faultpos_rel ", 'FAULT')
mutant('C14', 'mask non-strict in one setter', SFF, "self.__abovefault = self.system.atoms.pos[:, self.cutindex] > (self.faultpos_cart)", "self.__abovefault = self.system.atoms.pos[:, self.cutindex] >= (self.faultpos_cart)", 'FAULT')
mutant('C14', 'fault moves atoms below', SFF, "        sfsystem.atoms.pos[self.abovefault] += faultshift", "        sfsystem.atoms.pos[~self.abovefault] += faultshift", 'FAULT')
mutant('C14', 'fault edits the stored system', SFF, "sfsystem = deepcopy(self.system)", "sfsystem = self.system", 'FAULT')
mutant('C14', 'a2 fraction applied to a1 vector', SFF, "faultshift = a1 * self.a1vect_cart + a2 * self.a2vect_cart + outofplane * ovect", "faultshift = a1 * self.a1vect_cart + a2 * self.a1vect_cart + outofplane * ovect", 'FAULT')
mutant('C14', 'a2 setter accepts out-of-plane vector', SFF, ("            raise ValueError(f'shift vector {value} not in fault plane {self.hkl}')", 1), "            pass", 'FAULT')

# ------------------------------------------------------------------ C13
DIF = 'atomman/defect/Dislocation/__init__.py'
MOF = 'atomman/defect/Dislocation/_monopole.py'
PAF = 'atomman/defect/Dislocation/_periodicarray.py'
mutant('C13', 'orientation arm left-handed', DIF, "uvws = np.array([-m_uvw, ξ_uvw_p, n_uvw])", "uvws = np.array([m_uvw, ξ_uvw_p, n_uvw])", 'ORIENT')
mutant('C13', 'orientation arm rows swapped', DIF, "uvws = np.array([n_uvw, ξ_uvw_p, m_uvw])", "uvws = np.array([ξ_uvw_p, n_uvw, m_uvw])", 'ORIENT')
mutant('C13', 'slip plane shifts at planes', DIF, "relshifts = rcellwidth - (coords[1:] + coords[:-1]) / 2", "relshifts = rcellwidth - coords[:-1]", 'SHIFTS')
mutant('C13', 'monopole displacement subtracted', MOF, "disl_system.atoms.pos += self.dislsol.displacement(disl_system.atoms.pos - center)", "disl_system.atoms.pos -= self.dislsol.displacement(disl_system.atoms.pos - center)", 'MONOPOLE')
mutant('C13', 'monopole displacement ignores centre', MOF, "self.dislsol.displacement(disl_system.atoms.pos - center)", "self.dislsol.displacement(disl_system.atoms.pos)", 'MONOPOLE')
mutant('C13', 'monopole base system displaced too', MOF, "disl_system = deepcopy(base_system)", "disl_system = base_system", 'MONOPOLE')
mutant('C13', 'monopole periodic normal to the line', MOF, "disl_system.pbc[self.lineindex] = True", "disl_system.pbc[self.lineindex - 1] = True", 'MONOPOLE')
mutant('C13', 'monopole asymmetric multipliers', MOF, "    sizemults[self.lineindex - 1] = (-sizemults[self.lineindex - 1] // 2,\n                                        sizemults[self.lineindex - 1] // 2)", "    sizemults[self.lineindex - 1] = (0, sizemults[self.lineindex - 1])", 'MONOPOLE')
mutant('C13', 'monopole boundary inside', MOF, "disl_system.atoms.atype[shape.outside(disl_system.atoms.pos)] += base_system.natypes", "disl_system.atoms.atype[shape.inside(disl_system.atoms.pos)] += base_system.natypes", None)
mutant('C13', 'cylinder normal not perpendicular', MOF, "normal_vect2 = np.array([vect2[1], -vect2[0]])", "normal_vect2 = np.array([vect2[1], vect2[0]])", 'BOUNDARY')
mutant('C13', 'cylinder radius adds width', MOF, "radius =  smallest - width", "radius =  smallest + width", 'BOUNDARY')
mutant('C13', 'box boundary moved outward', MOF, "plane.point -= width * plane.normal", "plane.point += width * plane.normal", 'BOUNDARY')
mutant('C13', 'array tilt sign', PAF, "    if burgers.dot(m) > 0:\n        newvects[motionindex] -= burgers / 2", "    if burgers.dot(m) > 0:\n        newvects[motionindex] += burgers / 2", 'ARRAY')
mutant('C13', 'array accepts too many deletions', PAF, "if found != expected:", "if found < expected:", 'ARRAY')
mutant('C13', 'array linear field even in n', PAF, "return np.outer(np.sign(pos.dot(n)) * (0.25 - pos.dot(m) / (2 * length)), burgers)", "return np.outer((0.25 - pos.dot(m) / (2 * length)), burgers)", 'ARRAY')
mutant('C13', 'array base not trimmed', PAF, "    base_system = base_system.atoms_ix[disl_system.atoms.old_id]\n", "", 'ARRAY')
mutant('C13', 'disregistry initial box', DRF, "disp = displacement(basesystem, dislsystem)", "disp = displacement(basesystem, dislsystem, box_reference='initial')", 'DISREGISTRY')

# ------------------------------------------------------------------ C18
GSF = 'atomman/defect/GammaSurface.py'
PNF = 'atomman/defect/SDVPN.py'
ADRF = 'atomman/defect/pn_arctan_disregistry.py'
ADDF = 'atomman/defect/pn_arctan_disldensity.py'
mutant('C18', 'regress-F13 solve for a stack of positions', GSF, "a123 = np.linalg.solve(coeffs, pos.T).T", "a123 = np.linalg.solve(coeffs[None], pos)", None)
mutant('C18', 'a12_to_pos swaps vectors', GSF, "return np.outer(a1, a1vect) + np.outer(a2, a2vect)", "return np.outer(a2, a1vect) + np.outer(a1, a2vect)", 'GAMMA-CONV')
mutant('C18', 'xy_to_a12 x-axis not converted to Cartesian', GSF, ("            xvect = np.dot(a1vect, self.box.vects)", 1), "            xvect = np.asarray(a1vect, dtype=float)", 'GAMMA-CONV')
mutant('C18', 'xy_to_pos forgets the inverse', GSF, "        transform = np.linalg.inv(transform)\n", "", 'GAMMA-CONV')
mutant('C18', 'fit window lower a2 bound from a1 grid', GSF, "a2min = ua2[np.where(np.isclose(ua2, 0.0))[0][0] - 1] - 1e-8", "a2min = ua2[np.where(np.isclose(ua1, 0.0))[0][0] - 1] - 1e-8", 'GAMMA-FIT')
mutant('C18', 'fit tiling offsets mismatched', GSF, "a2 = np.concatenate([a2-1, a2, a2+1, a2-1, a2, a2+1, a2-1, a2, a2+1])", "a2 = np.concatenate([a2-1, a2-1, a2-1, a2, a2, a2, a2+1, a2+1, a2+1])", 'GAMMA-FIT')
mutant('C18', 'fit keeps duplicated edge', GSF, "shortdata = self.data[~(np.isclose(self.data.a1, 1.0) | np.isclose(self.data.a2, 1.0))]", "shortdata = self.data[~(np.isclose(self.data.a1, 1.0))]", 'GAMMA-FIT')
mutant('C18', 'blend weight paired with wrong image', GSF, "+ x * (1 - y) * self.__E_gsf_fit(a1, a2 + 1)", "+ x * (1 - y) * self.__E_gsf_fit(a1 + 1, a2)", 'GAMMA-EGSF')
mutant('C18', 'period reduction one-sided', GSF, "            while np.any(a1 < 0.0): \n                a1[a1 < 0.0] += 1.0\n", "", 'GAMMA-EGSF')
mutant('C18', 'surface energy uses stored profile', PNF, "        δ = disregistry\n        Δx = x[1] - x[0]\n        β = self.beta", "        δ = self.disregistry\n        Δx = x[1] - x[0]\n        β = self.beta", 'PN-TERMS')
mutant('C18', 'central density abscissa', PNF, "ρ = ((δ[2:] - δ[:-2]).T / (x[2:] - x[:-2])).T", "ρ = ((δ[2:] - δ[:-2]).T / (x[1:-1] - x[:-2])).T", 'PN-TERMS')
mutant('C18', 'elastic kernel asymmetric', PNF, "- ψ(i, j-1, Δx) - ψ(j, i-1, Δx)", "- ψ(i, j-1, Δx) - ψ(i, j-1, Δx)", 'PN-TERMS')
mutant('C18', 'elastic prefactor', PNF, "np.inner(ρ[i].dot(Kij), ρ) ) / (4 * np.pi)", "np.inner(ρ[i].dot(Kij), ρ) ) / (2 * np.pi)", 'PN-TERMS')
mutant('C18', 'nonlocal neighbour average', PNF, "dd = δ[m:-m] - 0.5 * (δ[2*m:] + δ[:-2*m])", "dd = δ[m:-m] - (δ[2*m:] + δ[:-2*m])", 'PN-TERMS')
mutant('C18', 'short stress expression sign', PNF, "            τ = -τ\n", "", 'PN-TERMS')
mutant('C18', 'total energy drops non-local term', PNF, "                + self.nonlocal_energy(x, disregistry)\n", "", 'PN-TOTAL')
mutant('C18', 'solve varies the end points', PNF, "d13 = np.concatenate([d[1:-1, 0], d[1:-1, 2]])", "d13 = np.concatenate([d[:-2, 0], d[:-2, 2]])", 'PN-SOLVE')
mutant('C18', 'solve writes z into y', PNF, "d[1:-1, 2] = d13[half:]", "d[1:-1, 1] = d13[half:]", 'PN-SOLVE')
mutant('C18', 'arctan density half-width squared missing', ADDF, "disldensity = np.outer(halfwidth / ((x - center)**2 + halfwidth**2), burgers / np.pi)", "disldensity = np.outer(1 / ((x - center)**2 + halfwidth**2), burgers / np.pi)", 'ARCTAN')
mutant('C18', 'arctan disregistry centre sign', ADRF, "np.arctan((x - center) / halfwidth)", "np.arctan((x + center) / halfwidth)", 'ARCTAN')


# ---- cases added with the round-2 rules: behaviour-preserving rewrites must stay silent, their breaking counterparts must fire
RUNF = 'atomman/lammps/run.py'
C2PF = 'atomman/dump/conventional_to_primitive/dump.py'
benign('C03', 'bin growth copies only the occupied slots (count + 1)', NL, "for l in range(maxatomsperbin + 1):", "for l in range(xyzbins[i, j, k, 0] + 1):")
mutant('C03', 'bin growth copies one slot too few', NL, "for l in range(maxatomsperbin + 1):", "for l in range(xyzbins[i, j, k, 0]):", 'INSERTION')
benign('C04', 'ladder: positions computed once, copied per tolerance', SYS, "            search_success = False\n            for atol in tol:\n                \n                spos = system2.atoms_prop('pos', scale=True)\n",
       "            spos0 = system2.atoms_prop('pos', scale=True)\n            search_success = False\n            for atol in tol:\n                \n                spos = spos0.copy()\n")
mutant('C04', 'ladder: positions hoisted and rounded in place', SYS, "            search_success = False\n            for atol in tol:\n                \n                spos = system2.atoms_prop('pos', scale=True)\n",
       "            spos = system2.atoms_prop('pos', scale=True)\n            search_success = False\n            for atol in tol:\n                \n", 'ROTATE')
benign('C04', 'generic t: t2 tested before t1', C2PF, "        if is_t1:\n            setting = 't1'\n        elif is_t2:\n            setting = 't2'", "        if is_t2:\n            setting = 't2'\n        elif is_t1:\n            setting = 't1'")
mutant('C04', 'generic t resolves t2 cells to t1', C2PF, "        elif is_t2:\n            setting = 't2'", "        elif is_t2:\n            setting = 't1'", 'CONVERSION')
benign('C11', 'normalized hexagonal also passes the dependent C66 = (C11 - C12)/2', ECF, "                c_dict['C44'] = (c[3,3] + c[4,4]) / 2\n            \n            elif crystal_system == 'tetragonal':",
       "                c_dict['C44'] = (c[3,3] + c[4,4]) / 2\n                c_dict['C66'] = (c_dict['C11'] - c_dict['C12']) / 2\n            \n            elif crystal_system == 'tetragonal':")
mutant('C11', 'normalized hexagonal passes the raw C66', ECF, "                c_dict['C44'] = (c[3,3] + c[4,4]) / 2\n            \n            elif crystal_system == 'tetragonal':",
       "                c_dict['C44'] = (c[3,3] + c[4,4]) / 2\n                c_dict['C66'] = c[5,5]\n            \n            elif crystal_system == 'tetragonal':", 'NORMALIZED')
benign('C12', 'axes checked in their own branch', VDF, "                transform = axes\n            if transform is not None:", "                transform = axes_check(axes)\n            if transform is not None:")
mutant('C12', 'axes taken unchecked', VDF, "            if transform is not None:\n                transform = axes_check(transform)\n            else:", "            if transform is not None and axes is None:\n                transform = axes_check(transform)\n            elif transform is None:", 'FRAME')
benign('C13', 'blend: positions of the trimmed system through a local name', PAF, "        disp[ii] = linear_displacement(disl_system.atoms.pos[ii] - center, burgers,\n                                       length, m, n)",
       "        dpos = disl_system.atoms.pos\n        disp[ii] = linear_displacement(dpos[ii] - center, burgers,\n                                       length, m, n)")
mutant('C13', 'blend: linear field at positions of the untrimmed system', PAF, "        disp[ii] = linear_displacement(disl_system.atoms.pos[ii] - center, burgers,", "        disp[ii] = linear_displacement(pos[ii] - center, burgers,", 'ARRAY')
mutant('C13', 'array: old_id counts from the kept atoms', PAF, "disl_system.atoms.old_id = np.where(ii)[0]", "disl_system.atoms.old_id = np.arange(disl_system.natoms)", 'ARRAY')
mutant('C13', 'array: elastic field evaluated without the centre', PAF, "disp = self.dislsol.displacement(disl_system.atoms.pos - center)", "disp = self.dislsol.displacement(disl_system.atoms.pos)", 'ARRAY')
mutant('C13', 'array: cell stays periodic across the cut', PAF, "    newpbc[cutindex] = False", "    newpbc[motionindex] = False", 'ARRAY')
mutant('C13', 'monopole: shift index zero ignored', MOF, "    if shift is not None or shiftindex is not None:", "    if shift is not None or shiftindex:", 'MONOPOLE')
mutant('C13', 'periodicarray: shift index zero ignored', PAF, "    if shift is not None or shiftindex is not None:", "    if shift is not None or shiftindex:", 'ARRAY')
benign('C13', 'monopole: shift guard spelled with a tuple test', MOF, "    if shift is not None or shiftindex is not None:", "    if not (shift is None and shiftindex is None):")
mutant('C13', 'shifts: cell height taken as vector length', DIF, "rcellwidth = self.rcell.box.vects[self.cutindex, self.cutindex]", "rcellwidth = np.linalg.norm(self.rcell.box.vects[self.cutindex])", 'SHIFTS')
mutant('C14', 'free surface: cell height taken as vector length', FSF, "rcellwidth = rcell.box.vects[cutindex, cutindex]", "rcellwidth = np.linalg.norm(rcell.box.vects[cutindex])", 'FREE-SURFACE')
mutant('C14', 'surface(): default fault position only when unset', SFF, "        else:\n            self.faultpos_rel = 0.5", "        elif self.__faultpos_rel is None:\n            self.faultpos_rel = 0.5", 'FAULT')
mutant('C14', 'free_surface_basis: conventional box kept', FSBF, "        b_uvw = miller.vector_conventional_to_primitive(b_uvw, setting=conventional_setting)\n        box = primitive_box", "        b_uvw = miller.vector_conventional_to_primitive(b_uvw, setting=conventional_setting)", 'PLANE-TABLE')
benign('C16', 'gcd along the last axis by its positive index', MIL, "    n = np.gcd.reduce(indices, axis=-1)", "    n = np.gcd.reduce(indices, axis=indices.ndim - 1)")
mutant('C16', 'gcd over the first three indices only', MIL, "    n = np.gcd.reduce(indices, axis=-1)", "    n = np.gcd.reduce(indices[..., :3], axis=-1)", 'UTIL')
benign('C17', 'p vectors rotated with dot and the transposed matrix', STF, "            p_vectors = np.inner(p_vectors, axes_check(axes))", "            p_vectors = np.dot(p_vectors, axes_check(axes).T)")
mutant('C17', 'p vectors rotated with the transposed rotation', STF, "            p_vectors = np.inner(p_vectors, axes_check(axes))", "            p_vectors = np.dot(p_vectors, axes_check(axes))", 'P-VECTORS')
mutant('C17', 'match_pq takes p as a writable buffer', STF, "cdef match_pq(const double[:,::1] p, ", "cdef match_pq(double[:,::1] p, ", 'READONLY-FLOW')
benign('C17', 'shared p vectors copied after broadcasting', STF, "            p_vectors = np.broadcast_to(p_vectors, (system.natoms, len(p_vectors[0]), 3))", "            p_vectors = np.array(np.broadcast_to(p_vectors, (system.natoms, len(p_vectors[0]), 3)))")
mutant('C18', 'delta tiled from the unfiltered table', GSF, "            delta = np.concatenate([shortdata.delta] * 9)", "            delta = np.concatenate([self.data.delta] * 9)", 'GAMMA-FIT')
benign('C18', 'delta tiled with a comprehension', GSF, "            delta = np.concatenate([shortdata.delta] * 9)", "            delta = np.concatenate([shortdata.delta for _ in range(9)])")
benign('C19', 'old logs read with a zero-based counter', RUNF, "    for i in range(1, lognum+1):\n        log.read(f'{logname}-{i}{logext}')", "    for i in range(lognum):\n        log.read(f'{logname}-{i + 1}{logext}')")
mutant('C19', 'newest old log not read back', RUNF, "    for i in range(1, lognum+1):", "    for i in range(1, lognum):", 'RESTART')
mutant('C19', 'old log renamed over the newest one', RUNF, "            lognum = maxlogid + 1", "            lognum = max(maxlogid, 1)", 'RESTART')
benign('C20', 'euler on a private copy, advanced in place', EU, "    return coord + timestep * ratefxn(coord, **kwargs)", "    coord = np.array(coord, dtype=float)\n    coord += timestep * ratefxn(coord, **kwargs)\n    return coord")
mutant('C20', 'euler advances the caller array in place', EU, "    return coord + timestep * ratefxn(coord, **kwargs)", "    coord = np.asarray(coord, dtype=float)\n    coord += timestep * ratefxn(coord, **kwargs)\n    return coord", 'PURE-STEP')
benign('C20', 'intermediate path built with keyword arguments', ISM, "        intpath = ISMPath(icoord, self.energyfxn, self.gradientfxn,\n                          self.gradientkwargs)", "        intpath = ISMPath(icoord, self.energyfxn, gradientfxn=self.gradientfxn,\n                          gradientkwargs=self.gradientkwargs)")
mutant('C20', 'intermediate path drops the gradient settings', ISM, "        intpath = ISMPath(icoord, self.energyfxn, self.gradientfxn,\n                          self.gradientkwargs)", "        intpath = ISMPath(icoord, self.energyfxn)", 'STRING-STEP')
mutant('C02', 'wrapper caches the cell vectors per box object', DM, "    bvects = box.vects\n", "    global _lastbox, _lastv\n    try:\n        same = box is _lastbox\n    except NameError:\n        same = False\n    if not same:\n        _lastbox = box\n        _lastv = box.vects\n    bvects = _lastv\n", 'WRAPPER')
benign('C03', 'growth test written with max()', NL, "if neighbors[uindex, 0] > maxneighbors or neighbors[vindex, 0] > maxneighbors:", "if max(neighbors[uindex, 0], neighbors[vindex, 0]) > maxneighbors:")
benign('C03', 'coordination counts incremented in the other order', NL, "                            neighbors[uindex, 0] += 1\n                            neighbors[vindex, 0] += 1", "                            neighbors[vindex, 0] += 1\n                            neighbors[uindex, 0] += 1")
benign('C03', 'neighbour growth copies only the occupied part of each row', NL, "                                    for k in range(maxneighbors + 1):\n                                        newneighbors[j, k] = neighbors[j, k]", "                                    for k in range(min(neighbors[j, 0], maxneighbors) + 1):\n                                        newneighbors[j, k] = neighbors[j, k]")
mutant('C03', 'second row insertion point never searched', NL, "                                if neighbors[vindex, j] > uindex:\n                                    vj = j\n                                    break", "                                if neighbors[vindex, j] > uindex:\n                                    vj = j", 'INSERTION')
mutant('C19', 'regress: dtype of the latest run forced on merged columns', LOG, "                    converted = np.asarray(merged_df[key], dtype=dtypes[key])\n                except ValueError:\n                    pass\n                else:\n                    # Only keep the conversion if it leaves every value as it was\n                    if np.array_equal(converted, merged_df[key]):\n                        merged_df[key] = converted", "                    merged_df[key] = np.asarray(merged_df[key], dtype=dtypes[key])\n                except ValueError:\n                    pass", 'FLATTEN')

# ------------------------------------------------------------------ round 5: element types of buffers (DTYPE-FLOW)
mutant('C20', 'regress 7d99630: gradient buffer takes the coordinates\' element type', CD, 'gradient = np.zeros_like(coord, dtype=float)', 'gradient = np.zeros_like(coord)', 'FLOAT-BUFFERS')
mutant('C20', 'regress 7fcfc68: tangent buffer takes the coordinates\' element type', ISM, 'τ = np.empty_like(self.coord, dtype=float)', 'τ = np.empty_like(self.coord)', 'FLOAT-BUFFERS')
benign('C20', 'gradient buffer allocated from the shape', CD, 'gradient = np.zeros_like(coord, dtype=float)', 'gradient = np.zeros(coord.shape)')
benign('C20', 'tangent buffer allocated from the shape', ISM, 'τ = np.empty_like(self.coord, dtype=float)', 'τ = np.empty(self.coord.shape, dtype=float)')
mutant('C12', 'stress buffer takes the positions\' element type', 'atomman/defect/IsotropicVolterraDislocation.py', 'stress = np.empty(pos.shape[:-1] + (3,3))', 'stress = np.empty_like(pos, shape=pos.shape[:-1] + (3,3))', 'FLOAT-FIELDS')
benign('C12', 'strain buffer with an explicit float type', 'atomman/defect/IsotropicVolterraDislocation.py', 'strain = np.empty(pos.shape[:-1] + (3,3))', 'strain = np.zeros(pos.shape[:-1] + (3,3), dtype=float)')
mutant('C04', 'property buffer loses the property\'s element type', 'atomman/core/System.py', 'old.shape, dtype = old.dtype)', 'old.shape)', 'PROPERTY-TYPES')
benign('C04', 'property buffer allocated like the property', 'atomman/core/System.py', 'new = np.empty((mults[0] * mults[1] * mults[2],) + old.shape, dtype = old.dtype)', 'new = np.empty_like(old, shape=(mults[0] * mults[1] * mults[2],) + old.shape)')
mutant('C08', 'regress f236497: returned conversion table loses the scaled marking', 'atomman/dump/table/dump.py', "            scale.append(prop['prop_name'])\n", "            scale.append(prop['prop_name'])\n            prop['unit'] = None\n", 'TABLE-READ')
benign('C08', 'scaled columns collected by a comprehension', 'atomman/dump/table/dump.py', "    scale = []\n    for prop in prop_info:\n        if prop['unit'] == 'scaled':\n            scale.append(prop['prop_name'])\n", "    scale = [prop['prop_name'] for prop in prop_info if prop['unit'] == 'scaled']\n")
mutant('C07', 'tilt line decided with an absolute tolerance', 'atomman/dump/atom_data/dump.py', 'if xy != 0.0 or xz != 0.0 or yz != 0.0:', 'if not np.allclose([xy, xz, yz], 0.0):', 'DATA-FILE')
mutant('C08', 'dump header form decided with an absolute tolerance', 'atomman/dump/atom_dump/dump.py', 'is_orthogonal = (xy == 0.0 and xz == 0.0 and yz == 0.0)', 'is_orthogonal = bool(np.allclose([xy, xz, yz], 0.0))', 'DUMP-FILE')
benign('C07', 'tilt line decided by any()', 'atomman/dump/atom_data/dump.py', 'if xy != 0.0 or xz != 0.0 or yz != 0.0:', 'if any(t != 0.0 for t in (xy, xz, yz)):')

# regressions of the fix: commits e43274d, b1cb75b (unitconvert.model) and 50cdf3d (GammaSurface)
mutant('C10', 'regress-e43274d model converts only with a unit', 'atomman/unitconvert.py', "        value = get_in_units(value, units)\n    else:\n        value = np.asarray(value)\n", "        value = get_in_units(value, units)\n", 'ARRAY-LIKE')
mutant('C09', 'regress-e43274d model converts only with a unit', 'atomman/unitconvert.py', "        value = get_in_units(value, units)\n    else:\n        value = np.asarray(value)\n", "        value = get_in_units(value, units)\n", 'ARRAY-LIKE')
mutant('C10', 'regress-b1cb75b single value stored as computed', 'atomman/unitconvert.py', "        datamodel['value'] = value.tolist()\n        if error is not None:\n            datamodel['error'] = error.tolist()\n    \n    # 1D array", "        datamodel['value'] = value\n        if error is not None:\n            datamodel['error'] = error\n    \n    # 1D array", 'NATIVE-VALUES')
mutant('C10', 'model stores the flattened array itself', 'atomman/unitconvert.py', "        datamodel['value'] = value.flatten().tolist()", "        datamodel['value'] = value.flatten()", 'NATIVE-VALUES')
benign('C10', 'single value through item()', 'atomman/unitconvert.py', "        datamodel['value'] = value.tolist()\n        if error is not None:\n            datamodel['error'] = error.tolist()\n    \n    # 1D array", "        single = value.item()\n        datamodel['value'] = single\n        if error is not None:\n            datamodel['error'] = float(error)\n    \n    # 1D array")
benign('C10', 'model converts through the unit factor of None', 'atomman/unitconvert.py', "        value = get_in_units(value, units)\n    else:\n        value = np.asarray(value)\n", "        value = get_in_units(value, units)\n    else:\n        value = np.array(value)\n")
mutant('C18', 'regress-50cdf3d pos_to_a12 takes the position as passed', 'atomman/defect/GammaSurface.py', "        pos = np.asarray(pos)\n\n        # Handle a1vect and a2vect", "        # Handle a1vect and a2vect", 'ARRAY-LIKE')
mutant('C18', 'regress-50cdf3d pos_to_xy takes the position as passed', 'atomman/defect/GammaSurface.py', "        pos = np.asarray(pos)\n\n        # Handle xvect", "        # Handle xvect", 'ARRAY-LIKE')
benign('C18', 'position converted only when it is not an array', 'atomman/defect/GammaSurface.py', "        pos = np.asarray(pos)\n\n        # Handle xvect", "        if not isinstance(pos, np.ndarray):\n            pos = np.array(pos, dtype=float)\n\n        # Handle xvect")

# regressions of the fix: commits 652d0a9 (Log.read pairs timing tables with their runs) and 89eee59 (Log.flatten with runs without rows)
mutant('C19', 'regress-652d0a9 every Nlocal line closes a timing table', 'atomman/lammps/Log.py', "                    if len(performance_headers) > len(performance_footers):\n                        performance_footers.append(i-1)\n                        performance_runs.append(len(thermo_headers) - 1)", "                    performance_footers.append(i-1)\n                    performance_runs.append(len(performance_footers) - 1)", 'READ')
mutant('C19', 'regress-652d0a9 timing tables attached by their own count', 'atomman/lammps/Log.py', "self.simulations[performance_runs[i]+j].performance = performance", "self.simulations[i+j].performance = performance", 'READ')
mutant('C19', 'regress-89eee59 a run without rows is merged like any other', 'atomman/lammps/Log.py', "            if thermo is None or len(thermo) == 0:\n                continue", "            if thermo is None:\n                continue", 'FLATTEN')
mutant('C19', 'regress-89eee59 first compares with an empty table', 'atomman/lammps/Log.py', "                if len(merged_df) > 0:\n                    thermo = thermo[thermo.Step > merged_df.Step.max()]\n", "                thermo = thermo[thermo.Step > merged_df.Step.max()]\n", 'FLATTEN')
benign('C19', 'runs without rows skipped by their shape', 'atomman/lammps/Log.py', "            if thermo is None or len(thermo) == 0:\n                continue", "            if thermo is None:\n                continue\n            if thermo.shape[0] == 0:\n                continue")

# regressions of the fix: commit 91e0b7b (free_surface_basis searches independent of the unit of length)
mutant('C14', 'regress-91e0b7b in-plane test on the unnormalised dot product (first search)', 'atomman/defect/free_surface_basis.py', "        if np.isclose(np.dot(cart, unitnormal) / mag, 0.0):", "        if np.isclose(np.dot(cart, planenormal), 0.0):", 'SEARCH')
mutant('C14', 'regress-91e0b7b in-plane test on the unnormalised dot product (second search)', 'atomman/defect/free_surface_basis.py', "        if np.isclose(np.dot(cart, unitnormal) / np.linalg.norm(cart), 0.0) and", "        if np.isclose(np.dot(cart, planenormal), 0.0) and", 'SEARCH')
benign('C14', 'in-plane test through the cosine', 'atomman/defect/free_surface_basis.py', "        if np.isclose(np.dot(cart, unitnormal) / mag, 0.0):", "        cosine = np.dot(cart / mag, unitnormal)\n        if np.isclose(cosine, 0.0):")

# regressions of the fix: commit f9a140d (site search by position in a cell with a single atom)
PTF = 'atomman/defect/point.py'
_D2 = "np.linalg.norm(np.atleast_2d(system.dvect(pos, system.atoms.pos)), axis=1)"
_D1 = "np.linalg.norm(system.dvect(pos, system.atoms.pos), axis=1)"
mutant('C15', 'regress-f9a140d interstitial: distance along axis 1 of a single vector', PTF, (_D2, 1), _D1, 'SITE')
mutant('C15', 'regress-f9a140d substitutional: distance along axis 1 of a single vector', PTF, (_D2, 2), _D1, 'SITE')
mutant('C15', 'regress-f9a140d dumbbell: distance along axis 1 of a single vector', PTF, (_D2, 3), _D1, 'SITE')
benign('C15', 'interstitial: distance through dmag made one-dimensional', PTF, (_D2, 1), "np.atleast_1d(system.dmag(pos, system.atoms.pos))")
benign('C15', 'dumbbell: single vector reshaped to one row', PTF, (_D2, 3), "np.linalg.norm(np.reshape(system.dvect(pos, system.atoms.pos), (-1, 3)), axis=1)")

# regressions of the fix: commit 98fb38b (LAMMPS data / dump files from an open file-like object)
_RW8 = "        if isinstance(data, io.IOBase):\n            data.seek(0)\n"
mutant('C08', 'regress-98fb38b Atoms table read from a consumed stream', LD, "        # Rewind an open file-like object (the first pass read it to the end)\n" + _RW8, "", 'STREAMS')
mutant('C08', 'regress-98fb38b image flags read from a consumed stream', LD, "            if isinstance(data, io.IOBase):\n                data.seek(0)\n            with uber_open_rmode(data) as f:", "            with uber_open_rmode(data) as f:", 'STREAMS')
mutant('C08', 'regress-98fb38b Velocities read from a consumed stream', LD, "        prop_info = velocities_prop_info(atom_style, units)\n" + _RW8, "        prop_info = velocities_prop_info(atom_style, units)\n", 'STREAMS')
mutant('C08', 'regress-98fb38b dump table read from a consumed stream', LDD, "    if isinstance(data, io.IOBase):\n        data.seek(0)\n", "", 'STREAMS')
benign('C08', 'stream recognised by its seek method', LDD, "    if isinstance(data, io.IOBase):\n        data.seek(0)\n", "    if hasattr(data, 'seek'):\n        data.seek(0)\n")
benign('C08', 'velocities: rewind attempted, a name has nothing to rewind', LD, "        prop_info = velocities_prop_info(atom_style, units)\n" + _RW8, "        prop_info = velocities_prop_info(atom_style, units)\n        try:\n            data.seek(0)\n        except AttributeError:\n            pass\n")

# regressions of the fix: commit 5052613 (the dump-file writer leaves the conversion table it returns as resolved)
DDF = 'atomman/dump/atom_dump/dump.py'
mutant('C08', 'regress-5052613 scaled unit erased in the returned table', DDF, "            scale.append(prop['prop_name'])\n", "            scale.append(prop['prop_name'])\n            prop['unit'] = None\n", 'TABLE-READ')
mutant('C07', 'regress-5052613 scaled unit erased in the returned table', DDF, "            scale.append(prop['prop_name'])\n", "            scale.append(prop['prop_name'])\n            prop['unit'] = None\n", 'TABLE')
benign('C08', 'scaled columns collected first, conversion skips them by name', DDF, "            if prop['unit'] is not None and prop['unit'] != 'scaled':", "            if prop['unit'] is not None and pname not in scale:")

# regressions of the fix: commit 7571392 (System.neighborlist(model=...))
mutant('C03', 'regress-7571392 system passed on with a saved list', 'atomman/core/System.py', "        elif 'model' not in kwargs:\n            kwargs['system'] = self\n", "        else:\n            kwargs['system'] = self\n", 'NEIGHBORLIST')
benign('C03', 'system entry point: model branch returns early', 'atomman/core/System.py', "        elif 'model' not in kwargs:\n            kwargs['system'] = self\n        return NeighborList(**kwargs)", "        if 'model' in kwargs:\n            return NeighborList(**kwargs)\n        return NeighborList(system=self, **kwargs)")

# regressions of the fix: commit bec9910 (the cell is stored in angstrom by default)
mutant('C10', 'regress-bec9910 System.model: cell stored without a unit by default', 'atomman/core/System.py', "              box_unit: Optional[str] = 'angstrom',", "              box_unit: Optional[str] = None,", 'SYSTEM-MODEL')
mutant('C10', 'regress-bec9910 system_model writer: cell stored without a unit by default', 'atomman/dump/system_model/dump.py', "         box_unit: Optional[str] = 'angstrom',", "         box_unit: Optional[str] = None,", 'SYSTEM-MODEL')
benign('C10', 'default unit of the cell filled in inside System.model', 'atomman/core/System.py', "        model['atomic-system']['box'] = self.box.model(length_unit=box_unit)['box']", "        model['atomic-system']['box'] = self.box.model(length_unit=box_unit)['box'] if box_unit is not None else self.box.model(length_unit=None)['box']")

# regressions of the fix: commit 256214a (reduce_indices on blocks of index sets)
mutant('C16', 'regress-256214a reduce_indices divides through the transposed block', 'atomman/tools/miller.py', "    red_indices = indices // n[..., np.newaxis]\n", "    red_indices = (indices.T // n).T\n", 'UTIL')
benign('C16', 'reduce_indices: divisor expanded by expand_dims', 'atomman/tools/miller.py', "    red_indices = indices // n[..., np.newaxis]\n", "    red_indices = indices // np.expand_dims(n, -1)\n")

# regressions of the fix: commit 1ff65ea (POSCAR counts for every atom type of the system)
mutant('C07', 'regress-1ff65ea POSCAR counts stop at the largest type in use', 'atomman/dump/poscar/dump.py', "    for i in range(1, system.natypes+1):\n        count = counts[uatype==i]", "    for i in range(1, int(uatype.max()+1)):\n        count = counts[uatype==i]", 'POSCAR')

# regressions of the fix: commit e9f5651 (Gaussian units of the style tables)
STF = 'atomman/lammps/style.py'
mutant('C07', 'regress-e9f5651 cgs charge with c0 as a number', STF, "'C*m/(10*c0*s)'\n", "'10*c0*C'\n", 'STYLE-ELECTRICAL')
mutant('C07', 'regress-e9f5651 cgs electric field with c0 as a number', STF, "'c0*s/m*uV/cm'", "'c0*uV/cm'", 'STYLE-ELECTRICAL')
mutant('C07', 'regress-e9f5651 Debye with c0 as a number', STF, "'1e-21*C*m*m/(c0*s)'", "'1e-21/c0*C*m'", 'STYLE-ELECTRICAL')
mutant('C07', 'micro charge in coulomb', STF, "'1e-12*C'\n", "'C'\n", 'STYLE-ELECTRICAL')
benign('C07', 'statcoulomb written with the factor first', STF, "'C*m/(10*c0*s)'\n", "'0.1*C*m/(c0*s)'\n")
