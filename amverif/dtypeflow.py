"""DTYPE-FLOW: the element type of every array in a function, decided from how the array was made.

numpy fixes an array's element type when the array is created; a later `buf[...] = value` converts the value to the buffer's type
*silently* (1.5 -> 1 for an integer buffer, 7 -> 7.0 and True -> 1.0 for a float buffer), and an in-place operator refuses a
float result for an integer buffer.  Whether a function is exposed to that depends only on which constructor made the buffer and
what was given to it, i.e. on the shape of the code -- the values never matter.

Abstract value of an expression: a set of atoms, one per way the expression may have been made
    'float' 'int' 'bool'      arrays (or numpy scalars) of that element type
    'pyfloat' 'pyint' 'pybool' python scalars (they adapt to the array they are combined with, except that a python float
                               makes an integer array float)
    ('of', key)                the element type of caller-supplied data `key` (a parameter, or an attribute path of one):
                               whatever the caller passed -- integers if the caller wrote whole numbers
    ('?', why)                 not decided (an unknown callee, an unmodelled numpy function)
The pass is a forward walk over the statements (branches joined, loop bodies walked twice); every subscript store, in-place
operator, attribute store, allocation and return is recorded with the abstract values that reach it.  Rules ask questions of the
records; an undecided atom in an anchored site is an analysis error, never a pass.
"""
import ast

from .core import norm

FLOAT, INT, BOOL = 'float', 'int', 'bool'
PF, PI, PB = 'pyfloat', 'pyint', 'pybool'

_ALLOC = {'zeros', 'empty', 'ones', 'identity', 'eye'}
_LIKE = {'zeros_like', 'empty_like', 'ones_like'}
_CONVERT = {'array', 'asarray', 'asanyarray', 'ascontiguousarray', 'asfarray'}
_PROPAGATE = {'copy', 'atleast_1d', 'atleast_2d', 'atleast_3d', 'squeeze', 'ravel', 'reshape', 'transpose', 'swapaxes', 'moveaxis', 'flip', 'roll', 'tile', 'repeat', 'sort', 'unique',
              'concatenate', 'stack', 'vstack', 'hstack', 'column_stack', 'broadcast_to', 'clip', 'abs', 'absolute', 'round', 'around', 'cumsum', 'sum', 'max', 'min', 'amax', 'amin', 'prod',
              'diff', 'cross', 'dot', 'inner', 'outer', 'einsum', 'matmul', 'tensordot', 'kron', 'trace', 'diag', 'take', 'delete', 'append', 'insert', 'negative', 'add', 'subtract', 'multiply',
              'minimum', 'maximum', 'sign', 'triu', 'tril', 'expand_dims', 'array_split', 'split', 'block', 'fmod', 'mod', 'remainder', 'power', 'square'}
_FLOATING = {'linalg.norm', 'linalg.inv', 'linalg.det', 'linalg.solve', 'linalg.pinv', 'sqrt', 'sin', 'cos', 'tan', 'arcsin', 'arccos', 'arctan', 'arctan2', 'exp', 'log', 'log10', 'log2',
             'radians', 'degrees', 'deg2rad', 'rad2deg', 'mean', 'std', 'var', 'average', 'linspace', 'hypot', 'true_divide', 'divide', 'floor', 'ceil', 'rint', 'trunc', 'sinh', 'cosh', 'tanh',
             'interp', 'cbrt', 'reciprocal_float'}
_BOOLEAN = {'isclose', 'isnan', 'isfinite', 'isinf', 'logical_and', 'logical_or', 'logical_not', 'logical_xor', 'isin', 'in1d', 'greater', 'less', 'equal', 'not_equal', 'greater_equal', 'less_equal'}
_PYBOOL = {'allclose', 'array_equal', 'all', 'any', 'isscalar', 'issubdtype', 'iscomplexobj'}
_INTEGER = {'argmax', 'argmin', 'argsort', 'nonzero', 'flatnonzero', 'count_nonzero', 'searchsorted', 'digitize', 'lcm', 'gcd', 'lcm.reduce', 'gcd.reduce', 'indices', 'ndim', 'size', 'shape'}
_SAME_METHODS = {'copy', 'reshape', 'transpose', 'flatten', 'ravel', 'squeeze', 'sum', 'max', 'min', 'cumsum', 'prod', 'take', 'repeat', 'clip', 'round', 'view', 'swapaxes', 'conj', 'trace',
                 'diagonal', 'compress', 'item'}
_VIEW_ATTRS = {'T', 'real', 'imag', 'flat'}


def _np_name(f):
    for pre in ('np.', 'numpy.'):
        if f.startswith(pre):
            return f[len(pre):]
    return None


def arrayish(atoms):
    """what np.array(x) makes of python scalars"""
    m = {PF: FLOAT, PI: INT, PB: BOOL}
    return frozenset(m.get(a, a) for a in atoms)


def _comb(a, b, div=False):
    """element type of `a op b` for one way each"""
    if div:   # true division never yields integers, whatever the operands are
        return PF if a in (PF, PI, PB) and b in (PF, PI, PB) else FLOAT
    if isinstance(a, tuple) and a[0] == '?':
        return a
    if isinstance(b, tuple) and b[0] == '?':
        return b
    py = (PF, PI, PB)
    if a in py and b in py:
        return PF if PF in (a, b) else (PI if PI in (a, b) else PI)
    if a in py:
        a, b = b, a
    # a is an array type (or caller-typed); b an array type or a python scalar
    if FLOAT in (a, b) or b == PF:
        return FLOAT
    if b in py:
        return INT if a == BOOL and b == PI else a
    if isinstance(a, tuple):
        return a if b in (INT, BOOL) or b == a else ('of', '%s|%s' % (a[1], b[1])) if isinstance(b, tuple) else a
    if isinstance(b, tuple):
        return b
    return INT if INT in (a, b) else BOOL


def arith(l, r, div=False):
    return frozenset(_comb(a, b, div) for a in l for b in r)


class Store:
    __slots__ = ('node', 'target', 'buf', 'val', 'kind')

    def __init__(self, node, target, buf, val, kind):
        self.node, self.target, self.buf, self.val, self.kind = node, target, buf, val, kind


class DtypeFlow:
    def __init__(self, fn, attrs=None, calls=None, params=None, module=None, depth=0):
        """attrs: {'self.coord': atoms, 'system.box.origin': atoms} -- element types of attribute paths (resolved by the rule from the owning class);
        calls: {'self.grad_energy': atoms or callable(list of atoms)->atoms} -- element types returned by callees; params: {'name': atoms} to pin a parameter"""
        self.fn = fn
        self.module = module if module is not None else getattr(fn, '_mod', None)     # helper functions of the same module are analysed with the caller's argument types
        self.depth = depth
        self.attrs = dict(attrs or {})
        self.calls = dict(calls or {})
        a = fn.args
        self.params = [x.arg for x in a.posonlyargs + a.args + a.kwonlyargs]
        self.stores = []          # subscript stores and in-place operators
        self.attr_stores = {}     # 'self.x' -> atoms (plain rebinding stores)
        self.allocs = []          # (call node, atoms)
        self.returns = []         # (node, atoms)
        self.uses = {}            # id(expr node) -> atoms, for every evaluated Name load (last evaluation wins)
        env = {}
        for p in self.params:
            env[p] = frozenset((params or {}).get(p, [('of', p)]))
        for x in a.args + a.kwonlyargs:
            ct = getattr(x.annotation, '_cbase', None) if x.annotation is not None else None
            if ct in ('double', 'float'):
                env[x.arg] = frozenset([FLOAT])
            elif ct in ('int', 'long', 'Py_ssize_t', 'np.int64_t', 'int64_t'):
                env[x.arg] = frozenset([INT])
        self.last = None
        self.final = self.block(fn.body, env)
        if self.final is None:
            self.final = self.last or {}

    # ---------------------------------------------------------------- dtype expressions
    def dtype_expr(self, e, env):
        if e is None:
            return None
        t = norm(e)
        if t in ('float', "'float'", "'float64'", 'np.float64', 'numpy.float64', 'np.float_', 'np.double', "'d'", "'f8'", 'np.floating'):
            return frozenset([FLOAT])
        if t in ('int', "'int'", "'int64'", 'np.int64', 'numpy.int64', 'np.int_', 'np.intp', "'i8'", 'np.int32', "'int32'"):
            return frozenset([INT])
        if t in ('bool', "'bool'", 'np.bool_', 'numpy.bool_'):
            return frozenset([BOOL])
        if isinstance(e, ast.Attribute) and e.attr == 'dtype':
            return self.ev(e.value, env)
        if isinstance(e, ast.Name) and e.id in env:
            return env[e.id]
        return frozenset([('?', 'dtype expression ' + t)])

    # ---------------------------------------------------------------- expressions
    def ev(self, e, env):
        r = self._ev(e, env)
        if isinstance(e, ast.Name):
            self.uses[id(e)] = r
        return r

    def _ev(self, e, env):
        if isinstance(e, ast.Constant):
            v = e.value
            if isinstance(v, bool):
                return frozenset([PB])
            if isinstance(v, int):
                return frozenset([PI])
            if isinstance(v, float):
                return frozenset([PF])
            return frozenset([('?', 'constant %r' % (v,))])
        if isinstance(e, ast.Name):
            if e.id in env:
                return env[e.id]
            return frozenset([('?', 'name ' + e.id)])
        if isinstance(e, ast.Attribute):
            key = norm(e)
            if key in self.attrs:
                return frozenset(self.attrs[key])
            if e.attr in _VIEW_ATTRS:
                return self.ev(e.value, env)
            if e.attr in ('shape', 'ndim', 'size', 'itemsize', 'nbytes'):
                return frozenset([PI])
            base = e
            while isinstance(base, ast.Attribute):
                base = base.value
            if isinstance(base, ast.Name) and (base.id in self.params or base.id == 'self'):
                return frozenset([('of', key)])
            return frozenset([('?', 'attribute ' + key)])
        if isinstance(e, ast.Subscript):
            return self.ev(e.value, env)
        if isinstance(e, ast.BinOp):
            l, r = self.ev(e.left, env), self.ev(e.right, env)
            return arith(l, r, div=isinstance(e.op, ast.Div))
        if isinstance(e, ast.UnaryOp):
            if isinstance(e.op, ast.Not):
                return frozenset([PB])
            return self.ev(e.operand, env)
        if isinstance(e, (ast.Compare,)):
            return frozenset([BOOL])
        if isinstance(e, ast.BoolOp):
            out = frozenset()
            for v in e.values:
                out |= self.ev(v, env)
            return out
        if isinstance(e, ast.IfExp):
            return self.ev(e.body, env) | self.ev(e.orelse, env)
        if isinstance(e, (ast.List, ast.Tuple)):
            if not e.elts:
                return frozenset([PF])   # np.array([]) is float64
            out = None
            for x in e.elts:
                v = self.ev(x.value if isinstance(x, ast.Starred) else x, env)
                out = v if out is None else arith(out, v)
            return out
        if isinstance(e, ast.ListComp):
            return frozenset([('?', 'list comprehension')])
        if isinstance(e, ast.Call):
            return self.call(e, env)
        return frozenset([('?', type(e).__name__)])

    def call(self, e, env):
        f = norm(e.func)
        kw = {k.arg: k.value for k in e.keywords if k.arg}
        args = list(e.args)
        for a in args + list(kw.values()):      # every argument is evaluated (and its names recorded) whatever the callee
            self.ev(a.value if isinstance(a, ast.Starred) else a, env)
        if f in self.calls:
            s = self.calls[f]
            return frozenset(s([self.ev(a, env) for a in args]) if callable(s) else s)
        n = _np_name(f)
        if n is not None:
            if n in _ALLOC:
                d = self.dtype_expr(kw.get('dtype', args[1] if n in ('zeros', 'empty', 'ones') and len(args) > 1 else None), env)
                r = arrayish(d) if d is not None else frozenset([FLOAT])
                self.allocs.append((e, r))
                return r
            if n == 'full':
                d = self.dtype_expr(kw.get('dtype', args[2] if len(args) > 2 else None), env)
                r = arrayish(d) if d is not None else arrayish(self.ev(args[1], env))
                self.allocs.append((e, r))
                return r
            if n in _LIKE or n == 'full_like':
                pos = 2 if n == 'full_like' else 1
                d = self.dtype_expr(kw.get('dtype', args[pos] if len(args) > pos else None), env)
                r = arrayish(d) if d is not None else arrayish(self.ev(args[0], env))
                self.allocs.append((e, r))
                return r
            if n in _CONVERT:
                d = self.dtype_expr(kw.get('dtype', args[1] if len(args) > 1 else None), env)
                if n == 'asfarray':
                    return frozenset([FLOAT])
                return arrayish(d) if d is not None else arrayish(self.ev(args[0], env))
            if n == 'arange':
                d = self.dtype_expr(kw.get('dtype'), env)
                if d is not None:
                    return arrayish(d)
                out = frozenset([PI])
                for a in args:
                    out = arith(out, self.ev(a, env))
                return arrayish(out)
            if n == 'where':
                if len(args) == 3:
                    return arrayish(arith(self.ev(args[1], env), self.ev(args[2], env)))
                return frozenset([INT])
            if n in _FLOATING:
                return frozenset([FLOAT])
            if n in _BOOLEAN:
                return frozenset([BOOL])
            if n in _PYBOOL:
                return frozenset([PB])
            if n in _INTEGER:
                return frozenset([INT])
            if n in _PROPAGATE:
                d = self.dtype_expr(kw.get('dtype'), env)
                if d is not None:
                    return arrayish(d)
                arrs = [a for a in args if not isinstance(a, ast.Constant) or not isinstance(a.value, str)]
                if n in ('reshape', 'transpose', 'swapaxes', 'moveaxis', 'roll', 'tile', 'repeat', 'take', 'delete', 'expand_dims', 'squeeze', 'sum', 'max', 'min', 'amax', 'amin', 'prod', 'cumsum',
                         'sort', 'unique', 'flip', 'round', 'around', 'diff', 'trace', 'diag', 'triu', 'tril', 'broadcast_to', 'array_split', 'split', 'ravel', 'clip', 'copy', 'abs', 'absolute',
                         'negative', 'sign', 'square', 'atleast_1d', 'atleast_2d', 'atleast_3d'):
                    arrs = arrs[:1]
                out = None
                for a in arrs:
                    v = arrayish(self.ev(a, env))
                    out = v if out is None else arith(out, v)
                return out if out is not None else frozenset([('?', 'call ' + f)])
            return frozenset([('?', 'numpy function ' + f)])
        if f in ('deepcopy', 'copy.deepcopy', 'copy.copy', 'copy') and args:
            return self.ev(args[0], env)
        if f in ('len', 'int', 'round') and (f != 'round' or len(args) == 1):
            return frozenset([PI])
        if f == 'float':
            return frozenset([PF])
        if f == 'bool':
            return frozenset([PB])
        if f in ('abs', 'max', 'min', 'sum') and args:
            return self.ev(args[0], env)
        if f == 'range':
            return frozenset([PI])
        if isinstance(e.func, ast.Name) and self.module is not None and self.depth < 3:
            callee = [n_ for n_ in self.module.body if isinstance(n_, ast.FunctionDef) and n_.name == e.func.id]
            if len(callee) == 1 and not any(isinstance(a, ast.Starred) for a in args):
                cp = [a.arg for a in callee[0].args.posonlyargs + callee[0].args.args]
                bound = {}
                for nm, a in zip(cp, args):
                    bound[nm] = self.ev(a, env)
                for k_, v_ in kw.items():
                    if k_ in cp:
                        bound[k_] = self.ev(v_, env)
                sub = DtypeFlow(callee[0], attrs=self.attrs, calls=self.calls, params=bound, module=self.module, depth=self.depth + 1)
                out = frozenset()
                for _n, v_ in sub.returns:
                    out |= v_
                if out:
                    return out
        if isinstance(e.func, ast.Attribute):
            m = e.func.attr
            recv = self.ev(e.func.value, env)
            if m in _SAME_METHODS:
                return recv
            if m == 'astype':
                d = self.dtype_expr(kw.get('dtype', args[0] if args else None), env)
                return arrayish(d) if d is not None else frozenset([('?', 'astype without a type')])
            if m in ('mean', 'std', 'var'):
                return frozenset([FLOAT])
            if m == 'dot' and args:
                return arith(recv, arrayish(self.ev(args[0], env)))
            if m in ('all', 'any'):
                return frozenset([PB])
            if m in ('argmax', 'argmin', 'argsort', 'nonzero'):
                return frozenset([INT])
            if m == 'tolist':
                return recv
        return frozenset([('?', 'call ' + f)])

    # ---------------------------------------------------------------- statements
    def block(self, body, env):
        """state after the block, or None when the block cannot fall through (it ends in return / raise on every path)"""
        for s in body:
            if env is None:
                break
            env = self.stmt(s, env)
        return env

    @staticmethod
    def join(a, b):
        if a is None:
            return b
        if b is None:
            return a
        out = dict(a)
        for k, v in b.items():
            out[k] = out.get(k, frozenset()) | v
        return out

    def bind(self, t, v, env, node):
        if isinstance(t, ast.Name):
            env[t.id] = v
        elif isinstance(t, (ast.Tuple, ast.List)):
            for x in t.elts:
                self.bind(x.value if isinstance(x, ast.Starred) else x, v, env, node)
        elif isinstance(t, ast.Subscript):
            self.stores.append(Store(node, t, self.ev(t.value, env), v, 'store'))
        elif isinstance(t, ast.Attribute):
            key = norm(t)
            self.attr_stores[key] = self.attr_stores.get(key, frozenset()) | v
            env['@' + key] = v

    def stmt(self, s, env):
        env = dict(env)
        if isinstance(s, ast.Assign):
            if isinstance(s.value, ast.Tuple) and len(s.targets) == 1 and isinstance(s.targets[0], ast.Tuple) and len(s.targets[0].elts) == len(s.value.elts):
                vals = [self.ev(x, env) for x in s.value.elts]
                for t, v in zip(s.targets[0].elts, vals):
                    self.bind(t, v, env, s)
                return env
            v = self.ev(s.value, env)
            for t in s.targets:
                self.bind(t, v, env, s)
            return env
        if isinstance(s, ast.AnnAssign):
            if s.value is not None:
                self.bind(s.target, self.ev(s.value, env), env, s)
            return env
        if isinstance(s, ast.AugAssign):
            cur = self.ev(s.target, env) if not isinstance(s.target, ast.Name) or s.target.id in env else frozenset([('?', 'name ' + s.target.id)])
            v = arith(cur, self.ev(s.value, env), div=isinstance(s.op, ast.Div))
            if isinstance(s.target, ast.Name):
                if cur <= {PF, PI, PB}:
                    env[s.target.id] = v       # python scalars are rebound
                else:
                    self.stores.append(Store(s, s.target, cur, v, 'inplace'))
            else:
                self.stores.append(Store(s, s.target, cur, v, 'inplace'))
            return env
        if isinstance(s, ast.Return):
            if s.value is not None:
                self.returns.append((s, self.ev(s.value, env)))
            self.last = env
            return None
        if isinstance(s, ast.Raise):
            return None
        if isinstance(s, ast.Expr):
            self.ev(s.value, env)
            return env
        if isinstance(s, ast.If):
            self.ev(s.test, env)
            return self.join(self.block(s.body, dict(env)), self.block(s.orelse, dict(env)))
        if isinstance(s, (ast.For, ast.While)):
            if isinstance(s, ast.For):
                it = self.ev(s.iter, env)
                self.bind(s.target, it, env, s)
            e1 = self.join(env, self.block(s.body, dict(env)))
            if isinstance(s, ast.For):
                self.bind(s.target, self.ev(s.iter, e1), e1, s)
            e2 = self.join(e1, self.block(s.body, dict(e1)))
            # the second walk re-records the same sites with the joined state: keep the later (wider) record per node
            seen = {}
            for st in self.stores:
                seen[(id(st.node), id(st.target))] = st
            self.stores = list(seen.values())
            return self.join(e2, self.block(s.orelse, e2)) if s.orelse else e2
        if isinstance(s, ast.With):
            return self.block(s.body, env)
        if isinstance(s, ast.Try):
            e1 = self.block(s.body, dict(env))
            out = self.block(s.orelse, e1) if (s.orelse and e1 is not None) else e1
            for h in s.handlers:
                out = self.join(out, self.block(h.body, dict(self.join(env, e1))))
            return self.block(s.finalbody, out) if (s.finalbody and out is not None) else out
        return env


def undecided(atoms):
    return [a for a in atoms if isinstance(a, tuple) and a[0] == '?']


def may_be_fractional(atoms):
    return any(a in (FLOAT, PF) for a in atoms)


def may_not_be_float(atoms):
    """the buffer may have an integer (or caller-chosen) element type"""
    return [a for a in atoms if a in (INT, BOOL) or (isinstance(a, tuple) and a[0] == 'of')]


def describe(atoms):
    out = []
    for a in sorted(atoms, key=str):
        if isinstance(a, tuple):
            out.append(('the element type of `%s` as the caller passed it' % a[1]) if a[0] == 'of' else 'undecided (%s)' % a[1])
        else:
            out.append(a)
    return ', '.join(out)


def class_attr_types(cls, rounds=3, attrs=None, calls=None):
    """element types of `self.x` for every attribute a class stores by plain assignment in any method (joined over all stores),
    and of every property (joined over the getter's returns); iterated so that attributes defined from one another settle"""
    table = dict(attrs or {})
    methods = [m for m in cls.body if isinstance(m, ast.FunctionDef)]
    props = {'self.' + m.name for m in methods if any(norm(d) == 'property' for d in m.decorator_list)}
    for _ in range(rounds):
        new = {}
        for m in methods:
            setter = any(norm(d).endswith('.setter') for d in m.decorator_list)
            fl = DtypeFlow(m, attrs=table, calls=calls)
            for k, v in fl.attr_stores.items():
                if k in props:
                    continue       # an assignment to a property runs its setter; what is kept is what the setter stores
                new[k] = new.get(k, frozenset()) | v
            if not setter and any(norm(d) == 'property' for d in m.decorator_list):
                r = frozenset()
                for _n, v in fl.returns:
                    r |= v
                if r:
                    new['self.' + m.name] = new.get('self.' + m.name, frozenset()) | r
        # a slice store into an attribute does not change its element type; an attribute only ever slice-stored keeps its allocation type
        merged = dict(attrs or {})
        merged.update(new)
        if merged == table:
            break
        table = merged
    return table


# -------------------------------------------------------------------- rules built on the records

def float_buffers(ctx, rule, rel, qual, floor=1, attrs=None, calls=None, what='computed values', none_ok=False):
    """every buffer of `qual` that receives a computed (possibly fractional, or undecided) value by a subscript store or an in-place operator is float whatever the
    element type of the caller's arrays: the values are not truncated (store) and the operation is not refused (in-place operator)"""
    fn = ctx.fn(rel, qual)
    fl = DtypeFlow(fn, attrs=attrs, calls=calls)
    n = 0
    if none_ok and not any((isinstance(x, ast.Subscript) and isinstance(x.ctx, ast.Store)) or isinstance(x, ast.AugAssign) for x in ast.walk(fn)):
        # nothing is written by subscript or in place anywhere in the function: there is no buffer whose element type could truncate
        ctx.ob(rule, '%s::%s' % (rel, qual), 'no buffer receives %s by a subscript store or an in-place operator (the result is assembled from the values themselves)' % what, True, node=fn, key='float buffer none ' + qual)
        return fl
    for s in fl.stores:
        if not (may_be_fractional(s.val) or undecided(s.val)):
            continue
        if isinstance(s.target, ast.Subscript) and isinstance(s.target.value, ast.Subscript) and not undecided(s.buf) and not may_not_be_float(s.buf):
            pass
        n += 1
        und = undecided(s.buf)
        if und:
            ctx.need(False, '%s: the element type of the buffer in `%s` (line %d) is not decided: %s' % (qual, norm(s.node)[:60], s.node.lineno, describe(und)))
        bad = may_not_be_float(s.buf)
        ctx.ob(rule, '%s::%s' % (rel, qual), 'the buffer `%s` that receives %s is float whatever element type the caller\'s arrays have (whole-number input is not truncated)' % (norm(s.target.value if isinstance(s.target, ast.Subscript) else s.target)[:40], what),
               not bad, 'buffer may have ' + describe(bad) + '; stored value: ' + describe(s.val) if bad else '', node=s.node,
               key='float buffer %s %s' % (qual, norm(s.target)[:50]))
    ctx.floor('%s/%s' % (rule, qual), n, floor)
    return fl


def same_type_buffers(ctx, rule, rel, qual, source, floor=1, attrs=None, calls=None, what='per-atom property values'):
    """every store in `qual` of a value whose element type is the caller's (`source` data carried over unchanged) goes into a buffer of exactly that element type, so the
    value is not converted (an integer id, a boolean flag or a string label does not become a float)"""
    fn = ctx.fn(rel, qual)
    fl = DtypeFlow(fn, attrs=attrs, calls=calls)
    n = 0
    src = lambda atoms: bool(atoms) and all(isinstance(a, tuple) and a[0] == 'of' and a[1].startswith(source) for a in atoms)
    for s in fl.stores:
        container = not isinstance(s.target, ast.Subscript) or isinstance(s.target.value, (ast.Attribute, ast.Subscript))
        if container:
            # a store into a table keyed by name keeps the array as it is: what is stored under the key must itself have the source's element type
            if isinstance(s.target, ast.Subscript) and (src(s.val) or (s.buf is not None and any(isinstance(a, tuple) and a[0] == 'of' and a[1].startswith(source) for a in s.val))):
                n += 1
                ctx.ob(rule, '%s::%s' % (rel, qual), 'what is stored as `%s` (%s) has their own element type (nothing was converted on the way)' % (norm(s.target)[:40], what),
                       src(s.val), 'stored value: %s' % describe(s.val), node=s.node, key='same type stored %s %s' % (qual, norm(s.target)[:50]))
            continue
        if not src(s.val):
            continue
        n += 1
        ctx.ob(rule, '%s::%s' % (rel, qual), 'the buffer `%s` that receives %s has their own element type (nothing is converted on the way)' % (norm(s.target.value)[:40], what),
               s.buf == s.val, 'buffer: %s; value: %s' % (describe(s.buf), describe(s.val)), node=s.node, key='same type buffer %s %s' % (qual, norm(s.target)[:50]))
    ctx.floor('%s/%s' % (rule, qual), n, floor)
    return fl
