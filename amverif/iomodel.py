"""Analyser-side models shared by the file-format rules (C07 writers, C08 readers).

These are *abstract values* handed to the symbolic evaluator in place of repository / pandas objects: a unit table
whose entries are opaque markers, a conversion stub that records (value, unit), a data-frame model whose columns are
symbols, and the LAMMPS reference tables (the oracle).  Nothing here touches atomman at run time.
"""
import itertools

import numpy as np
import sympy as sp

from .core import AnalysisError
from .symx import PyStub, Text, Opaque, WouldRaise, is_arr, StrLike, ModelError


class UnitExpr(StrLike):
    """a unit string assembled from table entries and literal text, e.g. unit['force'] + '*' + unit['length']"""

    def __init__(self, parts):
        self.parts = []
        for x in parts:
            self.parts.extend(x.parts if isinstance(x, UnitExpr) else [x])

    def __add__(self, o):
        if isinstance(o, (str, UnitKey, UnitExpr)):
            return UnitExpr([self, o])
        return NotImplemented

    def __radd__(self, o):
        if isinstance(o, (str, UnitKey)):
            return UnitExpr([o, self])
        return NotImplemented

    def __eq__(self, o):
        return isinstance(o, UnitExpr) and self.parts == o.parts

    def __hash__(self):
        return hash(tuple(map(repr, self.parts)))

    def __repr__(self):
        return 'unitexpr(%s)' % ''.join(x if isinstance(x, str) else repr(x) for x in self.parts)

    @property
    def styles(self):
        return {x.style for x in self.parts if isinstance(x, UnitKey)}

    def dim(self):
        """dimension vector of the expression, each table entry standing for a unit of its key's quantity"""
        from . import dims
        text, extra = '', {}
        for k, x in enumerate(self.parts):
            if isinstance(x, str):
                text += x
            else:
                nm = 'Qx%d' % k
                if x.key not in dims.DIM:
                    raise Opaque('unit key %r has no known dimension' % x.key)
                extra[nm] = tuple(dims.DIM[x.key]) + (1.0,)
                text += nm
        return dims.dim_of(text, extra)[0]

    @property
    def sym(self):
        out = sp.Integer(1)
        # only products / quotients of table entries are used by the repository; evaluate through the unit grammar on symbols
        from . import dims
        text, env = '', {}
        for k, x in enumerate(self.parts):
            if isinstance(x, str):
                text += x
            else:
                text += 'Qx%d' % k
                env['Qx%d' % k] = x.sym
        return sp.sympify(text.replace('^', '**'), locals=env)


class UnitKey(StrLike):
    """lammps_unit['length'] of unit style 'metal' -> UnitKey('metal', 'length')"""

    def __init__(self, style, key):
        self.style, self.key = style, key

    def __add__(self, o):
        if isinstance(o, (str, UnitKey, UnitExpr)):
            return UnitExpr([self, o])
        return NotImplemented

    def __radd__(self, o):
        if isinstance(o, str):
            return UnitExpr([o, self])
        return NotImplemented

    @property
    def styles(self):
        return {self.style}

    def dim(self):
        from . import dims
        from fractions import Fraction as F
        if self.key not in dims.DIM:
            raise Opaque('unit key %r has no known dimension' % self.key)
        return tuple(map(F, dims.DIM[self.key]))

    def __eq__(self, o):
        return isinstance(o, UnitKey) and (o.style, o.key) == (self.style, self.key)

    def __hash__(self):
        return hash((self.style, self.key))

    def __repr__(self):
        return 'unit[%s/%s]' % (self.style, self.key)

    @property
    def sym(self):
        return sp.Symbol('U_%s_%s' % (self.style, self.key.replace(' ', '_').replace('-', '_')), positive=True)


class UnitTable(PyStub):
    def __init__(self, style, keys=None, log=None):
        self.style, self.keys_, self.log = style, keys, log

    def __getitem__(self, k):
        if self.log is not None:
            self.log.append((self.style, k))
        if self.keys_ is not None and k not in self.keys_:
            raise WouldRaise('KeyError: unit style %r defines no %r unit' % (self.style, k))
        return UnitKey(self.style, k)


class StyleMod(PyStub):
    """stands for atomman.lammps.style"""

    def __init__(self, keys_by_style=None):
        self.keys_by_style = keys_by_style
        self.log = []
        self.calls = []

    def unit(self, units='metal'):
        self.calls.append(units)
        keys = None
        if self.keys_by_style is not None and units in self.keys_by_style:
            keys = self.keys_by_style[units]
        return UnitTable(units, keys, self.log)


class Conv:
    """value converted out of (get) or into (set) working units"""

    def __init__(self, mode, value, unit):
        self.mode, self.value, self.unit = mode, value, unit

    def __repr__(self):
        return '%s(%r, %r)' % (self.mode, self.value, self.unit)


def unit_factor(u):
    if u is None or u == 'scaled':
        return sp.Integer(1)
    if isinstance(u, (UnitKey, UnitExpr)):
        return u.sym
    if isinstance(u, str):
        return sp.Symbol('U_' + u, positive=True)
    raise Opaque('unit %r' % (u,))


class UC(PyStub):
    """stands for atomman.unitconvert: get_in_units divides, set_in_units multiplies by the unit's factor (C09 decides that)"""

    def __init__(self):
        self.log = []

    def get_in_units(self, value, units):
        self.log.append(('get', value, units))
        f = unit_factor(units)
        if isinstance(value, Col):
            return Col(value.name, value.expr / f, value.scaled)
        if isinstance(value, (list, tuple)):          # np.asarray(value) / factor
            import numpy as np
            value = np.array(list(value), dtype=object)
        return value / f

    def set_in_units(self, value, units):
        self.log.append(('set', value, units))
        f = unit_factor(units)
        if isinstance(value, Col):
            return Col(value.name, value.expr * f, value.scaled)
        if isinstance(value, (list, tuple)):
            import numpy as np
            value = np.array(list(value), dtype=object)
        return value * f


def indexstr(shape):
    """model of atomman.tools.indexstr (C-order index tuples with their bracket strings)"""
    shape = tuple(int(x) for x in shape)
    if shape == ():
        return [((), '')]
    return [(idx, ''.join('[%d]' % i for i in idx)) for idx in itertools.product(*[range(n) for n in shape])]


class Col:
    """one data-frame column: a symbol standing for the per-atom values (times/divided by unit factors)"""

    def __init__(self, name, expr=None, scaled=False):
        self.name = name
        self.expr = sp.Symbol('col_' + name.replace('[', '_').replace(']', '')) if expr is None else expr
        self.scaled = scaled

    def __repr__(self):
        return 'Col(%s=%s%s)' % (self.name, self.expr, ', scaled' if self.scaled else '')


class DF(PyStub):
    """ordered column table"""

    def __init__(self, cols=None):
        self.cols = dict(cols or {})
        self.csv = None

    @staticmethod
    def _name(k):
        """a column name built by an f-string from text and whole numbers ('spos[' 0 ']') is the plain string"""
        if isinstance(k, Text) and all(isinstance(x, str) or (isinstance(x, tuple) and len(x) == 2 and x[0] == 'val' and isinstance(x[1], (int, sp.Integer)) and not isinstance(x[1], bool)) for x in k.pieces):
            return ''.join(x if isinstance(x, str) else str(int(x[1])) for x in k.pieces)
        return k

    def __contains__(self, k):
        return self._name(k) in self.cols

    def __getitem__(self, k):
        if isinstance(k, list):
            k = [self._name(x) for x in k]
            missing = [x for x in k if x not in self.cols]
            if missing:
                raise WouldRaise('KeyError: columns %s not in the table' % missing)
            return DF({x: self.cols[x] for x in k})
        k = self._name(k)
        if k not in self.cols:
            raise WouldRaise('KeyError: column %r not in the table' % (k,))
        return self.cols[k]

    def __setitem__(self, k, v):
        self.cols[self._name(k)] = v

    def __getattr__(self, k):
        if k.startswith('_') or k in ('cols', 'csv'):
            raise AttributeError(k)
        if k in self.__dict__.get('cols', {}):
            return self.cols[k]
        raise AttributeError(k)

    def rename(self, columns=None, **kw):
        columns = {self._name(a): b for a, b in columns.items()}
        return DF({columns.get(k, k): v for k, v in self.cols.items()})

    def to_csv(self, path_or_buf=None, **kw):
        self.csv = dict(kw, path_or_buf=path_or_buf, columns=list(self.cols.items()))
        if path_or_buf is None:
            return Text([('table', self.csv)])
        return None


# ------------------------------------------------------------------ oracle: LAMMPS read_data "Atoms" / "Velocities" line formats
# Source: LAMMPS documentation, read_data command, tables "atom_style -> line syntax".
LAMMPS_ATOMS = {
    'angle': 'id mol type x y z',
    'atomic': 'id type x y z',
    'body': 'id type bodyflag mass x y z',
    'bond': 'id mol type x y z',
    'charge': 'id type q x y z',
    'dipole': 'id type q x y z mux muy muz',
    'electron': 'id type q spin eradius x y z',
    'ellipsoid': 'id type ellipsoidflag density x y z',
    'full': 'id mol type q x y z',
    'line': 'id mol type lineflag density x y z',
    'meso': 'id type rho e cv x y z',
    'molecular': 'id mol type x y z',
    'peri': 'id type volume density x y z',
    'smd': 'id type mol volume mass kernalradius contactradius x0 y0 z0 x y z',
    'sphere': 'id type diameter density x y z',
    'tri': 'id mol type triangleflag density x y z',
    'wavepacket': 'id type q spin eradius etag cs_re cs_im x y z',
}
# 'template': the column order differs between LAMMPS versions (atom-type moved); excluded with that reason.
LAMMPS_VELOCITIES = {
    '__default__': 'id vx vy vz',
    'electron': 'id vx vy vz ervel',
    'ellipsoid': 'id vx vy vz lx ly lz',
    'sphere': 'id vx vy vz wx wy wz',
}
# physical quantity of each column that carries a unit (key into the unit style table)
COLUMN_QUANTITY = {
    'x': 'length', 'y': 'length', 'z': 'length', 'x0': 'length', 'y0': 'length', 'z0': 'length', 'q': 'charge', 'mass': 'mass', 'density': 'density',
    'diameter': 'length', 'radius': 'length', 'volume': 'volume', 'eradius': 'length', 'mux': 'dipole', 'muy': 'dipole', 'muz': 'dipole', 'mu': 'dipole',
    'kernalradius': 'length', 'contactradius': 'length', 'vx': 'velocity', 'vy': 'velocity', 'vz': 'velocity', 'ervel': 'velocity',
    'lx': 'ang-mom', 'ly': 'ang-mom', 'lz': 'ang-mom', 'wx': 'ang-vel', 'wy': 'ang-vel', 'wz': 'ang-vel',
    'xu': 'length', 'yu': 'length', 'zu': 'length', 'fx': 'force', 'fy': 'force', 'fz': 'force',
    'omegax': 'ang-vel', 'omegay': 'ang-vel', 'omegaz': 'ang-vel', 'angmomx': 'ang-mom', 'angmomy': 'ang-mom', 'angmomz': 'ang-mom',
    'tqx': 'torque', 'tqy': 'torque', 'tqz': 'torque',
}
# columns that are pure numbers / flags (no unit expected)
UNITLESS_COLUMNS = {'id', 'mol', 'type', 'bodyflag', 'ellipsoidflag', 'lineflag', 'triangleflag', 'spin', 'etag', 'cs_re', 'cs_im', 'templateindex',
                    'templateatom', 'proc', 'procp1', 'element'}
# columns whose unit the repository leaves unconverted and LAMMPS documents only loosely (SPH quantities): not judged
UNJUDGED_COLUMNS = {'rho', 'e', 'cv'}
SCALED_COLUMNS = {'xs', 'ys', 'zs', 'xsu', 'ysu', 'zsu', 'ix', 'iy', 'iz'}


def style_keys(ctx):
    """{unit style: set of keys defined by atomman.lammps.style.unit for it}, extracted from the source (dispatch arms + derived entries)"""
    import ast
    from .core import string_dispatch, norm
    rel = 'atomman/lammps/style.py'
    fn = ctx.fn(rel, 'unit')
    arms = string_dispatch(fn.body, 'units')
    out = {}
    derived = {}
    for s in fn.body:
        if isinstance(s, ast.Assign) and isinstance(s.targets[0], ast.Subscript) and isinstance(s.targets[0].slice, ast.Constant) and norm(s.targets[0].value) == 'params':
            needs = [v.value.slice.value for v in ast.walk(s.value) if isinstance(v, ast.FormattedValue) and isinstance(v.value, ast.Subscript)
                     and isinstance(v.value.slice, ast.Constant)]
            derived[s.targets[0].slice.value] = needs
    for st, body in arms.items():
        if st == '__else__':
            continue
        keys = set()
        for s in body:
            if isinstance(s, ast.Assign) and isinstance(s.targets[0], ast.Subscript) and isinstance(s.targets[0].slice, ast.Constant):
                keys.add(s.targets[0].slice.value)
        for k, needs in derived.items():
            if all(n in keys for n in needs):
                keys.add(k)
        out[st] = keys
    if len(out) < 8:
        raise AnalysisError('style.unit: only %d unit styles found' % len(out))
    return out


# ------------------------------------------------------------------ reader-side models: text lines as token lists, data frames with row order

class Line(PyStub):
    """one text line: whitespace-separated tokens (str keywords, sympy symbols / ints for numbers) and an optional trailing '#' comment"""

    def __init__(self, tokens=(), comment=None):
        self.tokens = list(tokens)
        self.comment = None if comment is None else list(comment)

    def decode(self, enc='UTF-8'):
        return self

    def split(self):
        # the whole line: a trailing comment that has not been cut off comes along as words ('#', then the comment's words)
        return list(self.tokens) + ([] if self.comment is None else ['#'] + list(self.comment))

    def strip(self):
        return ' '.join(str(t) for t in self.split())

    def partition(self, sep):
        if sep != '#':
            raise Opaque('line partition at %r' % (sep,))
        if self.comment is None:
            return (self, '', Line([]))
        return (Line(self.tokens), '#', Line(self.comment))

    def find(self, ch):
        if ch == '#':
            return len(self.tokens) if self.comment is not None else -1
        raise Opaque('line find %r' % (ch,))

    def __contains__(self, ch):
        if ch == '#':
            return self.comment is not None
        return any(str(t) == ch for t in self.tokens)

    def index(self, ch):
        if ch == '#' and self.comment is not None:
            return len(self.tokens)          # token position stands for the character position
        raise ModelError('ValueError', 'substring not found')

    def __getitem__(self, k):
        if isinstance(k, slice):
            n = len(self.tokens)
            if k.start in (None, 0) and k.stop is not None:
                return Line(self.tokens[:k.stop])
            if k.start == n + 1 and k.stop is None and self.comment is not None:
                return Line(self.comment)
            if k.start == n and k.stop is None and self.comment is not None:
                return Line([], comment=self.comment)
            if k.start in (None, 0) and k.stop is None:
                return self
            raise Opaque('line slice %r' % (k,))
        if k == 0 and self.tokens:
            return str(self.tokens[0])[0]
        raise Opaque('line index %r' % (k,))

    def __repr__(self):
        return 'Line(%s%s)' % (' '.join(map(str, self.tokens)), '' if self.comment is None else ' # ' + ' '.join(map(str, self.comment)))


class LineFile(PyStub):
    def __init__(self, lines):
        self.lines = list(lines)

    def __iter__(self):
        return iter(self.lines)

    def readlines(self):
        return list(self.lines)


def numeric_tokens(xs):
    return all(not isinstance(x, str) for x in xs)


def np_array_typed(x, dtype=None, **kw):
    """numpy.array on token lists: converting a keyword token to a number raises, as numpy does"""
    if isinstance(x, (list, tuple)):
        flat = []

        def walk(v):
            if isinstance(v, (list, tuple)):
                for y in v:
                    walk(y)
            else:
                flat.append(v)
        walk(x)
        if dtype is not None and str(dtype).startswith(('int', 'float')) and not numeric_tokens(flat):
            raise ModelError('ValueError', 'could not convert string to number')
        a = np.empty(np.shape(x) if len(flat) else (0,), dtype=object)
        if len(flat):
            a[...] = np.array(x, dtype=object)
        return a
    return x


np_array_typed._wants_dtype = True


class Frame(PyStub):
    """data frame with explicit rows: columns {name: [values per row]}, rows in a definite order"""

    def __init__(self, cols, nrows=None):
        self.cols = {k: list(v) for k, v in cols.items()}
        self.n = nrows if nrows is not None else (len(next(iter(self.cols.values()))) if self.cols else 0)
        self.sorted_by = None

    def __contains__(self, k):
        return k in self.cols

    def __len__(self):
        return self.n

    def __getitem__(self, k):
        if isinstance(k, list):
            miss = [c for c in k if c not in self.cols]
            if miss:
                raise KeyError(miss)
            f = Frame({c: self.cols[c] for c in k}, self.n)
            f.sorted_by = self.sorted_by
            return f
        if k not in self.cols:
            raise KeyError(k)
        return np.array(self.cols[k], dtype=object)

    def sort_values(self, by, **kw):
        keys = self.cols[by]
        order = sorted(range(self.n), key=lambda r: int(keys[r]))
        f = Frame({c: [v[r] for r in order] for c, v in self.cols.items()}, self.n)
        f.sorted_by = by
        return f

    def set_index(self, by, **kw):
        f = Frame({c: v for c, v in self.cols.items() if c != by}, self.n)
        f.index = list(self.cols[by])
        f.sorted_by = self.sorted_by
        return f

    def sort_index(self, **kw):
        idx = getattr(self, 'index', list(range(self.n)))
        order = sorted(range(self.n), key=lambda r: int(idx[r]))
        f = Frame({c: [v[r] for r in order] for c, v in self.cols.items()}, self.n)
        f.index = [idx[r] for r in order]
        return f

    def reset_index(self, drop=False, **kw):
        return Frame(self.cols, self.n)

    @property
    def values(self):
        a = np.empty((self.n, len(self.cols)), dtype=object)
        for j, c in enumerate(self.cols):
            for r in range(self.n):
                a[r, j] = self.cols[c][r]
        return a

    def to_numpy(self, dtype=None, copy=False, **kw):
        return self.values

    @property
    def columns(self):
        return list(self.cols)

    @property
    def shape(self):
        return (self.n, len(self.cols))


def text_to_lines(text, render):
    """written text (Text value of the writer's evaluation) -> list of Line: literal words stay strings, formatted values become their symbolic values"""
    tpl, vals = render(text)
    lines = []
    k = 0
    import re as _re
    for raw in tpl.split('\n'):
        toks = []
        for w in raw.split():
            # a word may contain several placeholders glued to text only in degenerate cases; the writers separate them by blanks
            m = _re.fullmatch(r'\{[^{}]*\}', w)
            if m:
                toks.append(vals[k])
                k += 1
            elif '{' in w:
                raise Opaque('token mixes text and a formatted value: %r' % w)
            else:
                toks.append(w)
        lines.append(Line(toks))
    if k != len(vals):
        raise Opaque('tokeniser consumed %d of %d values' % (k, len(vals)))
    return lines
