"""E9: third-party API compatibility of call sites against the *installed* numpy / pandas / scipy.

The type environment is the metadata of the installed libraries (inspect.signature, hasattr); the program under
analysis is never executed.  Rules:
 * every keyword passed to a resolved numpy/pandas/scipy callable is a parameter of the installed callable
   (callables taking **kwargs are exempt);
 * every attribute chain rooted at an imported module alias exists;
 * method calls on values known to be pandas DataFrames (results of read_csv / DataFrame / concat / chained
   DataFrame methods) name existing DataFrame methods with valid keywords;
 * the repository's version-gate idiom (`if pdversion[0] > 1 ...: lineterminator ... else: line_terminator`)
   is evaluated with the installed version so only the live arm is checked;
 * an ndarray compared with a list literal is not used as a truth value.
"""
import ast
import importlib
import inspect

from .core import norm

ROOTS = ('numpy', 'pandas', 'scipy')


def _resolve(modname, chain):
    try:
        obj = importlib.import_module(modname)
    except Exception:
        return None, 'noimport'
    for i, a in enumerate(chain):
        if hasattr(obj, a):
            obj = getattr(obj, a)
        else:
            try:
                obj = importlib.import_module(modname + '.' + '.'.join(chain[:i + 1]))
            except Exception:
                return None, '.'.join(chain[:i + 1])
    return obj, None


def _sig_params(obj):
    try:
        sig = inspect.signature(obj)
    except (TypeError, ValueError):
        return None
    if any(p.kind == p.VAR_KEYWORD for p in sig.parameters.values()):
        return None
    return set(sig.parameters)


def _version_env():
    import pandas
    import numpy
    def ver(m):
        out = []
        for t in m.__version__.split('.'):
            try:
                out.append(int(t))
            except ValueError:
                break
        return out
    return {'pdversion': ver(pandas), 'npversion': ver(numpy)}


def _eval_gate(test, env):
    """evaluate tests made of <name>[i] <op> const / and / or; None if outside that vocabulary"""
    try:
        if isinstance(test, ast.BoolOp):
            vals = [_eval_gate(v, env) for v in test.values]
            if any(v is None for v in vals):
                return None
            return all(vals) if isinstance(test.op, ast.And) else any(vals)
        if isinstance(test, ast.Compare) and len(test.ops) == 1:
            l, r = test.left, test.comparators[0]
            if isinstance(l, ast.Subscript) and isinstance(l.value, ast.Name) and l.value.id in env and isinstance(l.slice, ast.Constant) and isinstance(r, ast.Constant):
                a, b = env[l.value.id][l.slice.value], r.value
                return {ast.Gt: a > b, ast.GtE: a >= b, ast.Lt: a < b, ast.LtE: a <= b, ast.Eq: a == b, ast.NotEq: a != b}[type(test.ops[0])]
    except Exception:
        return None
    return None


DF_SOURCES = {'pandas.read_csv', 'pandas.DataFrame', 'pandas.concat', 'pandas.read_table', 'pandas.read_fwf'}
DF_CHAIN = {'drop', 'set_index', 'replace', 'astype', 'rename', 'sort_values', 'reset_index', 'append', 'copy', 'T', 'fillna', 'dropna'}


class Issue:
    def __init__(self, node, kind, what):
        self.node, self.kind, self.what = node, kind, what


def scan(mod, df_hints=()):
    """-> (issues, stats) for one module ast.  df_hints: extra callee texts whose result is a DataFrame."""
    alias = {}
    issues = []
    stats = {'calls_resolved': 0, 'kw_checked': 0, 'df_method_calls': 0, 'attr_chains': 0, 'gates_evaluated': 0}
    for n in ast.walk(mod):
        if isinstance(n, ast.Import):
            for a in n.names:
                if a.name.split('.')[0] in ROOTS:
                    alias[a.asname or a.name.split('.')[0]] = a.name if a.asname else a.name.split('.')[0]
        elif isinstance(n, ast.ImportFrom) and n.module and n.level == 0 and n.module.split('.')[0] in ROOTS:
            for a in n.names:
                obj, err = _resolve(n.module, [a.name])
                if err:
                    issues.append(Issue(n, 'missing-name', '%s.%s does not exist in the installed library' % (n.module, a.name)))
                else:
                    alias[a.asname or a.name] = n.module + '.' + a.name
    genv = _version_env()
    dead = set()
    for n in ast.walk(mod):
        if isinstance(n, ast.If):
            v = _eval_gate(n.test, genv)
            if v is not None:
                stats['gates_evaluated'] += 1
                for s in (n.orelse if v else n.body):
                    for x in ast.walk(s):
                        dead.add(id(x))

    def chain_of(node):
        ch = []
        while isinstance(node, ast.Attribute):
            ch.append(node.attr)
            node = node.value
        if isinstance(node, ast.Name) and node.id in alias:
            full = alias[node.id].split('.')
            return full[0], full[1:] + ch[::-1]
        return None, None

    # DataFrame-typed names per function (flow-insensitive within a function: enough for the anchored code)
    def df_typed(fn):
        typed = set()
        changed = True
        while changed:
            changed = False
            for s in ast.walk(fn):
                if isinstance(s, (ast.Assign, ast.With)):
                    pairs = []
                    if isinstance(s, ast.Assign):
                        pairs = [(t, s.value) for t in s.targets]
                    for t, v in pairs:
                        if isinstance(t, ast.Name) and t.id not in typed and is_df(v, typed):
                            typed.add(t.id)
                            changed = True
        return typed

    def is_df(v, typed):
        if isinstance(v, ast.Call):
            m, ch = chain_of(v.func)
            if m and (m + '.' + '.'.join(ch)) in DF_SOURCES:
                return True
            if norm(v.func) in df_hints or norm(v.func).split('.')[-1] in df_hints:
                return True
            if isinstance(v.func, ast.Attribute) and v.func.attr in DF_CHAIN and is_df(v.func.value, typed):
                return True
        if isinstance(v, ast.Attribute) and v.attr in ('T',) and is_df(v.value, typed):
            return True
        if isinstance(v, ast.Call) and isinstance(v.func, ast.Attribute) and v.func.attr == 'to_frame':
            return True
        if isinstance(v, ast.Name) and v.id in typed:
            return True
        if isinstance(v, ast.Subscript) and isinstance(v.slice, ast.List) and is_df(v.value, typed):
            return True
        return False

    import pandas
    seen = set()
    for n in ast.walk(mod):
        if id(n) in dead:
            continue
        if isinstance(n, ast.Attribute):
            m, ch = chain_of(n)
            if m:
                stats['attr_chains'] += 1
                obj, err = _resolve(m, ch)
                if err and err != 'noimport':
                    # attributes of values (ndarray results) are not module attributes: only flag while still on modules/classes
                    prefix, _ = _resolve(m, err.split('.')[:-1])
                    if prefix is not None and (inspect.ismodule(prefix) or inspect.isclass(prefix)) and (n.lineno, err) not in seen:
                        seen.add((n.lineno, err))
                        issues.append(Issue(n, 'missing-attribute', '%s.%s does not exist in the installed %s %s' % (m, err, m, importlib.import_module(m).__version__)))
        if isinstance(n, ast.Call):
            m, ch = chain_of(n.func)
            if m:
                obj, err = _resolve(m, ch)
                if obj is not None and callable(obj):
                    stats['calls_resolved'] += 1
                    # numpy >= 2: np.array(x, copy=False) no longer means "copy only if needed" but "never copy": it raises ValueError whenever a conversion is required
                    # (a list, another dtype); np.asarray is the old meaning
                    if m == 'numpy' and ch == ['array'] and int(importlib.import_module('numpy').__version__.split('.')[0]) >= 2:
                        for kw in n.keywords:
                            if kw.arg == 'copy' and isinstance(kw.value, ast.Constant) and kw.value.value is False:
                                issues.append(Issue(n, 'changed-semantics', 'numpy.array(..., copy=False) raises ValueError under the installed numpy %s whenever the argument needs converting (a list, another element type); '
                                                    'np.asarray has the old copy-if-needed meaning' % importlib.import_module('numpy').__version__))
                    params = _sig_params(obj)
                    if params is not None:
                        for kw in n.keywords:
                            if kw.arg:
                                stats['kw_checked'] += 1
                                if kw.arg not in params:
                                    issues.append(Issue(n, 'bad-keyword', '%s.%s() has no parameter %r in the installed %s %s' % (
                                        m, '.'.join(ch), kw.arg, m, importlib.import_module(m).__version__)))
    for fn in [x for x in ast.walk(mod) if isinstance(x, (ast.FunctionDef, ast.AsyncFunctionDef))]:
        typed = df_typed(fn)
        for n in ast.walk(fn):
            if id(n) in dead:
                continue
            if isinstance(n, ast.Call) and isinstance(n.func, ast.Attribute) and is_df(n.func.value, typed):
                meth = n.func.attr
                stats['df_method_calls'] += 1
                if not hasattr(pandas.DataFrame, meth):
                    issues.append(Issue(n, 'missing-method', 'pandas.DataFrame has no method %r in the installed pandas %s' % (meth, pandas.__version__)))
                    continue
                params = _sig_params(getattr(pandas.DataFrame, meth))
                if params is not None:
                    for kw in n.keywords:
                        if kw.arg and kw.arg not in params:
                            issues.append(Issue(n, 'bad-keyword', 'DataFrame.%s() has no parameter %r in the installed pandas %s' % (meth, kw.arg, pandas.__version__)))
    # ndarray == [] used as truth value
    for fn in [x for x in ast.walk(mod) if isinstance(x, (ast.FunctionDef, ast.AsyncFunctionDef))]:
        arrs = _array_names(fn, alias)
        for n in ast.walk(fn):
            if isinstance(n, (ast.If, ast.While, ast.IfExp, ast.Assert)):
                t = n.test
                if isinstance(t, ast.Compare) and len(t.ops) == 1 and isinstance(t.ops[0], (ast.Eq, ast.NotEq)):
                    sides = [t.left, t.comparators[0]]
                    lits = [s for s in sides if isinstance(s, (ast.List, ast.Tuple))]
                    others = [s for s in sides if not isinstance(s, (ast.List, ast.Tuple))]
                    if lits and others and isinstance(others[0], ast.Name) and others[0].id in arrs:
                        issues.append(Issue(n, 'ndarray-truth', 'truth value of `%s`: an ndarray compared with a list literal is an array (empty arrays have no truth value under the installed numpy)' % norm(t)))
    return issues, stats


def _array_names(fn, alias):
    """names bound (anywhere in fn) to the result of a numpy call or to a subscript/unpacking of one"""
    arrs = set()
    np_names = {k for k, v in alias.items() if v.split('.')[0] == 'numpy'}

    def is_np_call(v):
        if isinstance(v, ast.Call):
            f = v.func
            while isinstance(f, ast.Attribute):
                f = f.value
            return isinstance(f, ast.Name) and f.id in np_names
        return False
    changed = True
    while changed:
        changed = False
        for s in ast.walk(fn):
            if isinstance(s, ast.Assign):
                v = s.value
                src = is_np_call(v) or (isinstance(v, ast.Subscript) and isinstance(v.value, ast.Name) and v.value.id in arrs and not isinstance(v.slice, ast.Constant))
                if src:
                    for t in s.targets:
                        names = [t] if isinstance(t, ast.Name) else (list(t.elts) if isinstance(t, (ast.Tuple, ast.List)) else [])
                        for nm in names:
                            if isinstance(nm, ast.Name) and nm.id not in arrs:
                                arrs.add(nm.id)
                                changed = True
    return arrs
