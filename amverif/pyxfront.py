"""Cython parse tree -> Python ast adapter (C declarations dropped, cdef functions become defs).

Unknown node kinds raise Unsupported: the driver turns that into ANALYSIS-ERROR, never a silent skip."""
import ast, sys
from Cython.Compiler import Options, Parsing, Nodes as N, ExprNodes as E
from Cython.Compiler.Main import Context
from Cython.Compiler.Scanning import FileSourceDescriptor, PyrexScanner

class Unsupported(Exception): pass

def parse_pyx_text(text, name='x.pyx'):
    """Parse Cython source text with Cython's own scanner/parser (no compilation)."""
    import io
    from Cython.Compiler.Scanning import StringSourceDescriptor
    opts = Options.CompilationOptions(Options.default_options, language_level=3)
    ctx = Context.from_options(opts)
    sd = StringSourceDescriptor(name, text)
    from Cython.Compiler.Symtab import ModuleScope
    scope = ModuleScope('x', None, ctx)
    s = PyrexScanner(io.StringIO(text), sd, source_encoding='utf-8', scope=scope, context=ctx)
    return Parsing.p_module(s, 0, 'x')

def parse_pyx(path):
    with open(path, encoding='utf-8') as f:
        return parse_pyx_text(f.read(), path)

BINOPS = {'+':ast.Add,'-':ast.Sub,'*':ast.Mult,'/':ast.Div,'//':ast.FloorDiv,'%':ast.Mod,'**':ast.Pow,'&':ast.BitAnd,'|':ast.BitOr,'^':ast.BitXor,'<<':ast.LShift,'>>':ast.RShift,'@':ast.MatMult}
CMPOPS = {'==':ast.Eq,'!=':ast.NotEq,'<':ast.Lt,'<=':ast.LtE,'>':ast.Gt,'>=':ast.GtE,'is':ast.Is,'is_not':ast.IsNot,'in':ast.In,'not_in':ast.NotIn}

class Adapter:
    def __init__(self): self.dropped=[]; self.cdecls=[]   # cdecls: (name, C scalar type, is a typed buffer, line) for every C-typed parameter and local
    def loc(self, node, new):
        if getattr(node,'pos',None):
            new.lineno=node.pos[1]; new.col_offset=node.pos[2]; new.end_lineno=node.pos[1]; new.end_col_offset=node.pos[2]
        return new
    # ---- statements
    def stmts(self, node):
        if node is None: return []
        if isinstance(node, N.StatListNode):
            out=[]
            for s in node.stats: out.extend(self.stmts(s))
            return out
        r = self.stmt(node)
        return r if isinstance(r,list) else ([r] if r is not None else [])
    def body(self, node):
        b=self.stmts(node)
        return b or [ast.Pass()]
    def stmt(self, n):
        m = getattr(self, 's_'+type(n).__name__, None)
        if m is None: raise Unsupported('stmt '+type(n).__name__+' at %s'%(n.pos[1:],))
        r = m(n)
        if isinstance(r,list): return [self.loc(n,x) for x in r]
        return self.loc(n,r) if r is not None else None
    def s_ExprStatNode(self,n): return ast.Expr(self.expr(n.expr))
    def s_PassStatNode(self,n): return ast.Pass()
    def s_GlobalNode(self,n): return ast.Global([str(x) for x in n.names])
    def s_TryExceptStatNode(self,n):
        hs=[]
        for c in n.except_clauses:
            pats = c.pattern or []
            typ = None if not pats else (self.expr(pats[0]) if len(pats)==1 else ast.Tuple([self.expr(x) for x in pats], ast.Load()))
            name = str(c.target.name) if getattr(c,'target',None) is not None else None
            hs.append(self.loc(c, ast.ExceptHandler(typ, name, self.body(c.body))))
        return ast.Try(self.body(n.body), hs, self.stmts(n.else_clause), [])
    def s_TryFinallyStatNode(self,n):
        inner = self.stmts(n.body)
        if len(inner)==1 and isinstance(inner[0], ast.Try) and not inner[0].finalbody:
            inner[0].finalbody = self.body(n.finally_clause)
            return inner[0]
        return ast.Try(inner or [ast.Pass()], [], [], self.body(n.finally_clause))
    def s_BreakStatNode(self,n): return ast.Break()
    def s_ContinueStatNode(self,n): return ast.Continue()
    def s_ReturnStatNode(self,n): return ast.Return(self.expr(n.value) if n.value is not None else None)
    def s_RaiseStatNode(self,n): return ast.Raise(self.expr(n.exc_type) if n.exc_type is not None else None, self.expr(n.cause) if getattr(n,'cause',None) is not None else None)
    def s_AssertStatNode(self,n):
        cond = getattr(n,'condition',None) or getattr(n,'cond',None)
        val = getattr(n,'value',None)
        return ast.Assert(self.expr(cond), self.expr(val) if val is not None else None)
    def s_SingleAssignmentNode(self,n):
        if isinstance(n.rhs, E.ImportNode):   # import x as y
            name = n.rhs.module_name.value
            return ast.Import([ast.alias(str(name), str(n.lhs.name) if n.lhs.name!=name.split('.')[0] else None)])
        return ast.Assign([self.expr(n.lhs, ast.Store())], self.expr(n.rhs))
    def s_CascadedAssignmentNode(self,n):
        return ast.Assign([self.expr(l, ast.Store()) for l in n.lhs_list], self.expr(n.rhs))
    def s_InPlaceAssignmentNode(self,n):
        return ast.AugAssign(self.expr(n.lhs, ast.Store()), BINOPS[n.operator](), self.expr(n.rhs))
    def s_IfStatNode(self,n):
        orelse = self.stmts(n.else_clause)
        for cl in reversed(n.if_clauses):
            node = self.loc(cl, ast.If(self.expr(cl.condition), self.body(cl.body), orelse))
            orelse=[node]
        return orelse[0]
    def s_ForInStatNode(self,n):
        it = n.iterator.sequence if isinstance(n.iterator, E.IteratorNode) else n.iterator
        return ast.For(self.expr(n.target, ast.Store()), self.expr(it), self.body(n.body), self.stmts(n.else_clause))
    def s_WhileStatNode(self,n): return ast.While(self.expr(n.condition), self.body(n.body), self.stmts(n.else_clause))
    def s_FromImportStatNode(self,n):
        mod = n.module.module_name.value; level = n.module.level or 0
        return ast.ImportFrom(str(mod) if mod else None, [ast.alias(str(name), str(tgt.name) if tgt.name!=name else None) for name,tgt in n.items], level)
    def s_FromCImportStatNode(self,n):
        self.dropped.append(('cimport', n.pos[1]))
        names=[]
        for it in n.imported_names:
            names.append(ast.alias(str(it[1]), str(it[2]) if it[2] else None))
        return ast.ImportFrom(str(n.module_name).lstrip('.') or None, names, getattr(n,'relative_level',0) or 0)
    def s_CImportStatNode(self,n): self.dropped.append(('cimport',n.pos[1])); return None
    def s_CVarDefNode(self,n):
        out=[]
        for d in n.declarators:
            base=d
            while not isinstance(base, N.CNameDeclaratorNode): base=base.base
            self.cdecls.append((str(base.name), self.cbase(n.base_type), isinstance(n.base_type, N.MemoryViewSliceTypeNode), n.pos[1]))
            if base.default is not None:
                out.append(ast.Assign([ast.Name(str(base.name), ast.Store())], self.expr(base.default)))
                out[-1]._ctype = self.ctype(n.base_type)
                out[-1]._cbase = self.cbase(n.base_type)
        self.dropped.append(('cdef', n.pos[1]))
        return out
    def ctype(self, t):
        """'memoryview' / 'const memoryview' for typed buffers (a writable view refuses a read-only array), else the C type name"""
        if isinstance(t, N.MemoryViewSliceTypeNode):
            b = t.base_type_node
            return 'const memoryview' if (isinstance(b, N.CQualifierTypeNode) and b.is_const) else 'memoryview'
        if isinstance(t, N.CQualifierTypeNode):
            return self.ctype(t.base_type)
        return str(getattr(t, 'name', None))
    def cbase(self, t):
        """C scalar type name behind a declaration: 'double' for `double x`, `const double[:, ::1] x` ..."""
        if isinstance(t, N.MemoryViewSliceTypeNode):
            return self.cbase(t.base_type_node)
        if isinstance(t, N.CQualifierTypeNode):
            return self.cbase(t.base_type)
        name = str(getattr(t, 'name', None))
        if getattr(t, 'longness', 0) and name == 'int':
            name = 'long long' if t.longness == 2 else 'long'
        return name
    def args(self, arglist):
        a=[]; defaults=[]
        for arg in arglist:
            d=arg.declarator
            while not isinstance(d, N.CNameDeclaratorNode): d=d.base
            name = d.name or arg.base_type.name   # untyped arg: the "type" is the name
            a.append(ast.arg(str(name), annotation=ast.Constant(self.ctype(arg.base_type)) if d.name else None))
            if d.name:
                a[-1].annotation._cbase = self.cbase(arg.base_type)
                self.cdecls.append((str(name), self.cbase(arg.base_type), isinstance(arg.base_type, N.MemoryViewSliceTypeNode), arg.pos[1]))
            if arg.default is not None: defaults.append(self.expr(arg.default))
        return ast.arguments(posonlyargs=[], args=a, vararg=None, kwonlyargs=[], kw_defaults=[], kwarg=None, defaults=defaults)
    def decos(self, n): return [self.expr(d.decorator) for d in (n.decorators or [])]
    def s_DefNode(self,n):
        return ast.FunctionDef(str(n.name), self.args(n.args), self.body(n.body), self.decos(n), None, type_params=[])
    def s_CFuncDefNode(self,n):
        d=n.declarator
        while not isinstance(d, N.CFuncDeclaratorNode): d=d.base
        name=d.base.name
        return ast.FunctionDef(str(name), self.args(d.args), self.body(n.body), self.decos(n), None, type_params=[])
    def s_PyClassDefNode(self,n):
        bases=[self.expr(b) for b in (n.bases.args if n.bases is not None else [])]
        return ast.ClassDef(str(n.name), bases, [], self.body(n.body), self.decos(n), type_params=[])
    # ---- expressions
    def expr(self, n, ctx=None):
        ctx = ctx or ast.Load()
        m = getattr(self, 'e_'+type(n).__name__, None)
        if m is None: raise Unsupported('expr '+type(n).__name__+' at %s'%(n.pos[1:],))
        return self.loc(n, m(n, ctx))
    def e_NameNode(self,n,ctx): return ast.Name(str(n.name), ctx)
    def e_IntNode(self,n,ctx): return ast.Constant(int(n.value,0))
    def e_FloatNode(self,n,ctx): return ast.Constant(float(n.value))
    def e_BoolNode(self,n,ctx): return ast.Constant(bool(n.value))
    def e_NoneNode(self,n,ctx): return ast.Constant(None)
    def e_UnicodeNode(self,n,ctx): return ast.Constant(str(n.value))
    def e_StringNode(self,n,ctx): return ast.Constant(str(n.value))
    def e_IdentifierStringNode(self,n,ctx): return ast.Constant(str(n.value))
    def e_BytesNode(self,n,ctx): return ast.Constant(bytes(n.value))
    def e_EllipsisNode(self,n,ctx): return ast.Constant(Ellipsis)
    def e_AttributeNode(self,n,ctx): return ast.Attribute(self.expr(n.obj), str(n.attribute), ctx)
    def e_TupleNode(self,n,ctx): return ast.Tuple([self.expr(a,ctx) for a in n.args], ctx)
    def e_ListNode(self,n,ctx): return ast.List([self.expr(a,ctx) for a in n.args], ctx)
    def e_DictNode(self,n,ctx): return ast.Dict([self.expr(i.key) for i in n.key_value_pairs],[self.expr(i.value) for i in n.key_value_pairs])
    def binop(self,n,ctx): return ast.BinOp(self.expr(n.operand1), BINOPS[n.operator](), self.expr(n.operand2))
    e_AddNode=e_SubNode=e_MulNode=e_DivNode=e_PowNode=e_ModNode=e_IntBinopNode=e_NumBinopNode=binop
    def e_UnaryMinusNode(self,n,ctx): return ast.UnaryOp(ast.USub(), self.expr(n.operand))
    def e_UnaryPlusNode(self,n,ctx): return ast.UnaryOp(ast.UAdd(), self.expr(n.operand))
    def e_NotNode(self,n,ctx): return ast.UnaryOp(ast.Not(), self.expr(n.operand))
    def e_TildeNode(self,n,ctx): return ast.UnaryOp(ast.Invert(), self.expr(n.operand))
    def e_BoolBinopNode(self,n,ctx):
        op = ast.And() if n.operator=='and' else ast.Or()
        return ast.BoolOp(op, [self.expr(n.operand1), self.expr(n.operand2)])
    def e_PrimaryCmpNode(self,n,ctx):
        ops=[CMPOPS[n.operator]()]; comps=[self.expr(n.operand2)]
        c=n.cascade
        while c is not None:
            ops.append(CMPOPS[c.operator]()); comps.append(self.expr(c.operand2)); c=c.cascade
        return ast.Compare(self.expr(n.operand1), ops, comps)
    def e_SimpleCallNode(self,n,ctx): return ast.Call(self.expr(n.function), [self.expr(a) for a in n.args], [])
    def e_GeneralCallNode(self,n,ctx):
        args=[self.expr(a) for a in n.positional_args.args]
        kws=[]
        if n.keyword_args is not None:
            for it in n.keyword_args.key_value_pairs:
                kws.append(ast.keyword(str(it.key.value), self.expr(it.value)))
        return ast.Call(self.expr(n.function), args, kws)
    def e_IndexNode(self,n,ctx): return ast.Subscript(self.expr(n.base), self.expr(n.index), ctx)
    def e_SliceNode(self,n,ctx):
        f=lambda x: None if isinstance(x,E.NoneNode) else self.expr(x)
        return ast.Slice(f(n.start), f(n.stop), f(n.step))
    def e_SliceIndexNode(self,n,ctx):
        f=lambda x: None if x is None else self.expr(x)
        return ast.Subscript(self.expr(n.base), ast.Slice(f(n.start), f(n.stop), None), ctx)
    def _comp_parts(self, loop):
        """(generators, innermost body node) of the nested for / if statements of a comprehension"""
        gens = []
        node = loop
        while True:
            if isinstance(node, N.ForInStatNode):
                it = node.iterator.sequence if isinstance(node.iterator, E.IteratorNode) else node.iterator
                gens.append(ast.comprehension(self.expr(node.target, ast.Store()), self.expr(it), [], 0))
                node = node.body
            elif isinstance(node, N.IfStatNode) and len(node.if_clauses) == 1 and node.else_clause is None and gens:
                gens[-1].ifs.append(self.expr(node.if_clauses[0].condition))
                node = node.if_clauses[0].body
            elif isinstance(node, N.StatListNode) and len(node.stats) == 1:
                node = node.stats[0]
            else:
                return gens, node
    def e_ComprehensionNode(self,n,ctx):
        gens, inner = self._comp_parts(n.loop)
        kind = getattr(n.type, 'name', None)
        if isinstance(inner, E.DictComprehensionAppendNode):
            item = getattr(inner, 'dict_item', None)
            k_, v_ = (item.key, item.value) if item is not None else (inner.key_expr, inner.value_expr)
            return ast.DictComp(self.expr(k_), self.expr(v_), gens)
        if isinstance(inner, E.ComprehensionAppendNode):
            if kind == 'set':
                return ast.SetComp(self.expr(inner.expr), gens)
            return ast.ListComp(self.expr(inner.expr), gens)
        raise Unsupported('comprehension body '+type(inner).__name__+' at %s'%(n.pos[1:],))
    def e_GeneratorExpressionNode(self,n,ctx):
        gens, inner = self._comp_parts(n.loop)
        if isinstance(inner, N.ExprStatNode):
            inner = inner.expr
        arg = getattr(inner, 'arg', None)
        if isinstance(inner, E.YieldExprNode) and arg is not None:
            return ast.GeneratorExp(self.expr(arg), gens)
        raise Unsupported('generator body '+type(inner).__name__+' at %s'%(n.pos[1:],))
    def e_LambdaNode(self,n,ctx):
        a = self.args(n.args)
        for x in a.posonlyargs + a.args + a.kwonlyargs:
            x.annotation = None
        return ast.Lambda(a, self.expr(n.result_expr))
    def e_CondExprNode(self,n,ctx): return ast.IfExp(self.expr(getattr(n,'condition',None) or n.test), self.expr(n.true_val), self.expr(n.false_val))

def pyx_text_to_ast(text, name='x.pyx'):
    tree=parse_pyx_text(text, name); ad=Adapter()
    mod=ast.Module(ad.stmts(tree.body), [])
    ast.fix_missing_locations(mod)
    return mod, ad

def pyx_to_ast(path):
    tree=parse_pyx(path); ad=Adapter()
    mod=ast.Module(ad.stmts(tree.body), [])
    ast.fix_missing_locations(mod)
    return mod, ad
if __name__=='__main__':
    for p in sys.argv[1:]:
        try:
            mod,ad=pyx_to_ast(p)
            src=ast.unparse(mod); compile(mod,p,'exec')
            fns=[n.name for n in ast.walk(mod) if isinstance(n,ast.FunctionDef)]
            print('OK',p,len(src.splitlines()),'lines; functions',fns,'dropped',len(ad.dropped))
        except Unsupported as e: print('UNSUPPORTED',p,e)
