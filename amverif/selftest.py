"""Checker validation (thorough tier): registered source mutants must fire, benign twins must stay silent.

A mutant is an edit (old text -> new text in one file) applied to an in-memory overlay of the SourceTree; no scratch
directories, /repo is never written.  Mutants are fixtures of the *checker*: when the text a mutant edits is no
longer present in the current tree (the repository moved on) the mutant is reported as stale and skipped; it never
turns into a violation of the property.  A mutant that applies but is not reported, or a benign twin that is
reported, is a defect of the checker and fails the thorough tier with ANALYSIS-ERROR.
"""
import os
import time
from concurrent.futures import ProcessPoolExecutor

from .core import SourceTree, run_property, REPO

# (property, kind, name, file, old, new, expected rule prefix or None)
REGISTRY = []


def mutant(prop, name, file, old, new, rule):
    REGISTRY.append((prop, 'mutant', name, file, old, new, rule))


def benign(prop, name, file, old, new):
    REGISTRY.append((prop, 'benign', name, file, old, new, None))


def _load():
    if REGISTRY:
        return
    from . import selftest_cases  # noqa: F401  (fills REGISTRY)
    _load_seeded()


SEEDED = os.path.join(os.path.dirname(os.path.dirname(os.path.abspath(__file__))), 'seeded')


def _load_seeded():
    """the stored seeded changes (/verif/seeded/<id>/patch.diff, written by independent sessions from the property text alone) are replayed as mutants"""
    import json
    if not os.path.isdir(SEEDED):
        return
    for d in sorted(os.listdir(SEEDED)):
        pd, mj = os.path.join(SEEDED, d, 'patch.diff'), os.path.join(SEEDED, d, 'meta.json')
        if os.path.isfile(pd) and os.path.isfile(mj):
            try:
                prop = json.load(open(mj))['property']
            except Exception:
                continue
            REGISTRY.append((prop, 'seed', d, pd, None, None, None))
    bdir = SEEDED + '_benign'
    if os.path.isdir(bdir):
        for d in sorted(os.listdir(bdir)):
            pd, mj = os.path.join(bdir, d, 'patch.diff'), os.path.join(bdir, d, 'meta.json')
            if os.path.isfile(pd) and os.path.isfile(mj):
                try:
                    prop = json.load(open(mj))['property']
                except Exception:
                    continue
                REGISTRY.append((prop, 'benign-seed', d, pd, None, None, None))


def apply_unified(patch_text, read):
    """apply a git unified diff to texts obtained from read(path); returns {path: new text}; ValueError when a hunk does not match"""
    import re
    files = []           # (path, [(old start, [(tag, text), ...]), ...])
    lines = patch_text.split('\n')
    k = 0
    while k < len(lines):
        ln = lines[k]
        if ln.startswith('+++ '):
            cur = ln[4:].strip()
            files.append((cur[2:] if cur.startswith('b/') else cur, []))
            k += 1
        elif ln.startswith('@@') and files:
            m = re.match(r'@@ -(\d+)(?:,(\d+))? \+(\d+)(?:,(\d+))? @@', ln)
            need_old = int(m.group(2)) if m.group(2) is not None else 1
            need_new = int(m.group(4)) if m.group(4) is not None else 1
            body = []
            k += 1
            while k < len(lines) and (need_old > 0 or need_new > 0):
                b_ = lines[k]
                k += 1
                if b_.startswith('\\'):
                    continue
                tag, txt = (b_[:1], b_[1:]) if b_ else (' ', '')
                if tag == ' ':
                    need_old -= 1
                    need_new -= 1
                elif tag == '-':
                    need_old -= 1
                elif tag == '+':
                    need_new -= 1
                else:
                    raise ValueError('malformed hunk line %r' % b_)
                body.append((tag, txt))
            files[-1][1].append((int(m.group(1)), body))
        else:
            k += 1
    out = {}
    for path, hs in files:
        src = read(path).split('\n')
        res, at, shift = [], 0, 0
        for start, body in hs:
            old = [txt for tag, txt in body if tag in (' ', '-')]
            want = max(start - 1, 0) + shift

            def fits(i):
                return i >= at and i + len(old) <= len(src) and src[i:i + len(old)] == old
            # like git apply: the hunk goes where its old lines are found, nearest to the stated line (earlier hunks or earlier commits may have moved it); no fuzz in the lines
            i = None
            for d in range(0, len(src) + 1):
                if fits(want - d):
                    i = want - d
                    break
                if fits(want + d):
                    i = want + d
                    break
            if i is None:
                j = max(start - 1, 0)
                for tag, txt in body:
                    if tag in (' ', '-'):
                        if j >= len(src) or src[j] != txt:
                            raise ValueError('%s mismatch in %s at line %d' % ('context' if tag == ' ' else 'removed line', path, j + 1))
                        j += 1
                raise ValueError('hunk at line %d of %s does not apply' % (start, path))
            shift = i - max(start - 1, 0)
            res.extend(src[at:i])
            for tag, txt in body:
                if tag == ' ':
                    res.append(src[i])
                    i += 1
                elif tag == '-':
                    i += 1
                else:
                    res.append(txt)
            at = i
        res.extend(src[at:])
        out[path] = '\n'.join(res)
    return out


CASE_TIMEOUT = 420


def _one(case):
    import signal

    def _alarm(sig, frm):
        raise TimeoutError()
    try:
        # processor time of this worker, not wall-clock time: a busy machine must not turn a finishing case into a timeout
        signal.signal(signal.SIGVTALRM, _alarm)
        signal.setitimer(signal.ITIMER_VIRTUAL, CASE_TIMEOUT)
    except Exception:
        pass
    try:
        return _one_inner(case)
    except TimeoutError:
        return (case[0], case[1], case[2], 'TIMEOUT', 'analysis did not finish within %d s of processor time' % CASE_TIMEOUT)
    finally:
        try:
            signal.setitimer(signal.ITIMER_VIRTUAL, 0)
        except Exception:
            pass


def _one_inner(case):
    prop, kind, name, file, old, new, rule = case
    overlay = {}
    base = SourceTree()
    if kind in ('seed', 'benign-seed'):
        try:
            overlay = apply_unified(open(file).read(), base.text)
        except Exception as e:
            return (prop, kind, name, 'stale', 'patch does not apply to the current tree: %s' % e)
        edits = []
    else:
        edits = file if isinstance(file, list) else [(file, old, new)]
    for f, o, n in edits:
        try:
            txt = overlay.get(f) or base.text(f)
        except Exception:
            return (prop, kind, name, 'stale', 'file missing: %s' % f)
        occ = 0
        if isinstance(o, tuple):          # (text, k): edit the k-th occurrence (0-based)
            o, occ = o
        if txt.count(o) < occ + 1:
            return (prop, kind, name, 'stale', 'text to edit not present in %s' % f)
        at = -1
        for _ in range(occ + 1):
            at = txt.index(o, at + 1)
        overlay[f] = txt[:at] + n + txt[at + len(o):]
    tree = SourceTree(overlay=overlay)
    ctx, err = run_property(prop, 'quick', tree)
    from .core import load_known, match_known
    known = load_known(prop)
    failing = [o for o in ctx.obs if not o.ok and match_known(o, known) is None]
    if kind == 'benign-seed':
        if failing:
            return (prop, kind, name, 'FALSE-ALARM', '%s @ %s: %s' % (failing[0].rule, failing[0].locator, failing[0].desc))
        if err:
            return (prop, kind, name, 'LEAVES-VOCABULARY', err.splitlines()[0][:300])
        return (prop, kind, name, 'ok', 'silent')
    if kind == 'seed':
        if failing:
            return (prop, kind, name, 'ok', '%s @ %s' % (failing[0].rule, failing[0].locator))
        if err:
            return (prop, kind, name, 'ERROR-ONLY', err.splitlines()[0][:200])
        return (prop, kind, name, 'MISSED', 'seeded change applied but no obligation failed')
    if kind == 'mutant':
        hit = [o for o in failing if rule is None or o.rule.startswith(rule)]
        if hit:
            return (prop, kind, name, 'ok', '%s @ %s' % (hit[0].rule, hit[0].locator))
        if err:
            return (prop, kind, name, 'ok-as-error', err.splitlines()[0][:200])
        if failing:
            return (prop, kind, name, 'ok-other-rule', '%s (expected %s)' % (failing[0].rule, rule))
        return (prop, kind, name, 'MISSED', 'mutant applied but no obligation failed')
    else:
        if failing:
            return (prop, kind, name, 'FALSE-ALARM', '%s @ %s: %s' % (failing[0].rule, failing[0].locator, failing[0].desc))
        if err:
            return (prop, kind, name, 'twin-error', err.splitlines()[0][:200])
        return (prop, kind, name, 'ok', 'silent')


def run_for(prop, jobs=None):
    _load()
    cases = [c for c in REGISTRY if c[0] == prop]
    t0 = time.time()
    res = []
    if cases:
        with ProcessPoolExecutor(max_workers=jobs or min(16, len(cases))) as ex:
            res = list(ex.map(_one, cases))
    out = {'mutants': 0, 'mutants_detected': 0, 'benign_twins': 0, 'benign_silent': 0, 'seeded_changes': 0, 'seeded_detected': 0, 'seeded_rewrites': 0, 'seeded_rewrites_silent': 0, 'stale': 0, 'failures': [], 'results': []}
    for prop_, kind, name, status, detail in res:
        out['results'].append({'kind': kind, 'name': name, 'status': status, 'detail': detail})
        if status == 'stale':
            out['stale'] += 1
            continue
        if kind == 'benign-seed':
            out['seeded_rewrites'] += 1
            if status == 'ok':
                out['seeded_rewrites_silent'] += 1
            else:
                out['failures'].append('behaviour-preserving rewrite %s: %s %s' % (name, status, detail))
        elif kind == 'seed':
            out['seeded_changes'] += 1
            if status == 'ok':
                out['seeded_detected'] += 1
            else:
                out['failures'].append('seeded change %s: %s' % (name, detail))
        elif kind == 'mutant':
            out['mutants'] += 1
            if status == 'TIMEOUT':
                out['failures'].append('mutant %s: %s' % (name, detail))
            elif status in ('ok', 'ok-other-rule', 'ok-as-error'):
                out['mutants_detected'] += 1
            else:
                out['failures'].append('mutant %s not detected: %s' % (name, detail))
        else:
            out['benign_twins'] += 1
            if status == 'ok':
                out['benign_silent'] += 1
            elif status == 'twin-error':
                # leaving the analyser's vocabulary is reported (exit 2 on such a tree), not a false alarm
                out['results'][-1]['note'] = 'benign twin leaves the vocabulary: analysis error, not a violation'
                out['benign_silent'] += 1
            else:
                out['failures'].append('benign twin %s raised an alarm: %s' % (name, detail))
    out['wall_s'] = round(time.time() - t0, 2)
    return out


if __name__ == '__main__':
    import sys
    import json
    from .core import ensure_deps
    ensure_deps()
    props = sys.argv[1:] or sorted({c[0] for c in (_load() or REGISTRY)})
    for p in props:
        r = run_for(p)
        print(p, 'mutants %d/%d benign %d/%d seeded %d/%d stale %d' % (r['mutants_detected'], r['mutants'], r['benign_silent'], r['benign_twins'], r['seeded_detected'], r['seeded_changes'], r['stale']))
        for x in r['results']:
            if x['status'] not in ('ok',):
                print('   ', x)
