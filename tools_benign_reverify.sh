#!/bin/bash
# usage: tools_benign_reverify.sh [ids...]   re-confirms every stored behaviour-preserving rewrite against the current /repo HEAD in scratch worktrees (/tmp/seed/breverify-<k>, 8 at a time):
#   demo on the clean tree exits 0; with patch.diff applied the pinned suite still passes and the demo still exits 0.  Writes /verif/seeded_benign/CONFIRM.log (full runs only).


if [ -n "$RV_WORKER" ]; then
  wt=/tmp/seed/breverify-$RV_WORKER
  /verif/tools_mkworktree.sh breverify-$RV_WORKER >/dev/null 2>&1
  cd $wt || exit 1
  for n in "$@"; do
    d=/verif/seeded_benign/$n
    [ -f $d/patch.diff ] || continue
    rm -rf _seed; mkdir -p _seed; cp -r $d _seed/$n     # the demos import atomman from two directories above themselves
    git checkout -q -- atomman
    pyx=$(grep -c '^+++ .*\.pyx' $d/patch.diff)
    timeout 1800 /venv/bin/python _seed/$n/demo.py >/dev/null 2>&1; c=$?
    if ! git apply $d/patch.diff 2>/dev/null; then echo "$n APPLY-FAILED"; continue; fi
    [ "$pyx" != "0" ] && /venv/bin/python setup.py build_ext --inplace >/dev/null 2>&1
    t=$(/venv/bin/python -m pytest -q -p no:cacheprovider --timeout=900 2>&1 | grep -E "passed|failed" | tail -1 | sed 's/,[^,]*warnings.*//')
    timeout 1800 /venv/bin/python _seed/$n/demo.py >/dev/null 2>&1; m=$?
    git checkout -q -- atomman
    [ "$pyx" != "0" ] && { /venv/bin/python setup.py build_ext --inplace >/dev/null 2>&1; rm -rf build; }
    echo "$n head=$(git rev-parse --short HEAD) clean_rc=$c patched_rc=$m tests='$t' pyx=$pyx"
  done
  cd /; git -C /repo worktree remove --force $wt >/dev/null 2>&1; git -C /repo worktree prune
  exit 0
fi
ids=${@:-$(ls /verif/seeded_benign | grep '^C')}
tmp=$(mktemp -d /tmp/seed/brv.XXXX)
k=0
for n in $ids; do echo $n >> $tmp/part.$((k % 8)); k=$((k+1)); done
for p in $tmp/part.*; do
  w=${p##*.}
  ( RV_WORKER=$w $0 $(cat $p) > $tmp/out.$w 2>&1 ) &
done
wait
cat $tmp/out.* | sort > $tmp/all
[ $# -eq 0 ] && cp $tmp/all /verif/seeded_benign/CONFIRM.log
cat $tmp/all
rm -rf $tmp
