#!/bin/bash
# usage: tools_seed_verify.sh <Cxx>   verifies every /tmp/seed/<Cxx>/_seed/*/ in that worktree: clean demo PASS, patched tests 86 passed + demo FAIL
p=$1; wt=/tmp/seed/$p
cd $wt || exit 1
for d in _seed/*/; do
  n=$(basename $d)
  git checkout -q -- atomman
  pyx=$(grep -c '^+++ .*\.pyx' $d/patch.diff)
  /venv/bin/python $d/demo.py >/tmp/seed/$n.clean.log 2>&1; c=$?
  git apply $d/patch.diff || { echo "$n APPLY-FAILED"; continue; }
  [ "$pyx" != "0" ] && /venv/bin/python setup.py build_ext --inplace >/dev/null 2>&1
  t=$(/venv/bin/python -m pytest -q -p no:cacheprovider --timeout=900 2>&1 | grep -E "passed|failed" | tail -1 | sed 's/,[^,]*warnings.*//')
  /venv/bin/python $d/demo.py >/tmp/seed/$n.mut.log 2>&1; m=$?
  git checkout -q -- atomman
  [ "$pyx" != "0" ] && { /venv/bin/python setup.py build_ext --inplace >/dev/null 2>&1; rm -rf build; }
  echo "$n clean_rc=$c mutated_rc=$m tests='$t' pyx=$pyx"
done
