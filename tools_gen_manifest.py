#!/venv/bin/python
"""Regenerates MANIFEST.json from the table below (kept in one place so the manifest stays valid)."""
import json, os
HERE = os.path.dirname(os.path.abspath(__file__))
NOTE = ('Static analysis only: verdicts are computed from the syntax trees of /repo/atomman (.py via ast, .pyx via Cython\'s parser) '
        'and the metadata of the installed numpy/pandas/scipy; atomman is never imported or executed. Trusted: CPython/Cython parsers, '
        'the rule tables and oracles in amverif/rules, sympy normal forms on the small expressions involved.')
CLAIMED = {
    # id: (technique, level text, design ref)
}
NA = {}
exec(open(os.path.join(HERE, 'manifest_table.py')).read())
checks = []
for pid in sorted(CLAIMED):
    tech, text, ref = CLAIMED[pid]
    checks.append({
        'property_id': pid,
        'quick_cmd': './check %s --tier quick' % pid,
        'thorough_cmd': './check %s --tier thorough' % pid,
        'evidence_file': 'evidence/%s.json' % pid,
        'replay_cmd_template': './check %s --replay {path}' % pid,
        'engine': 'amverif',
        'level_claimed': {'category': 'other', 'text': text, 'design_ref': ref},
        'level_note': NOTE,
        'technique': tech,
    })
m = {
    'version': 1,
    'setup_cmd': '/venv/bin/pip install -q --no-index --find-links /opt/veriftools/wheels --target /verif/.deps sympy networkx lark || true',
    'hooks': {'guard': 'ATOMMAN_VERIF', 'enable': 'none needed: the checks read source text only; no hooks were added to atomman',
              'baseline_off_cmd': 'cd /repo && /venv/bin/python -m pytest -ra -q -p no:cacheprovider --timeout=900 --continue-on-collection-errors',
              'source_commits': [], 'add_only': True},
    'engines': [{'name': 'amverif', 'path': 'amverif/', 'serves_properties': sorted(CLAIMED),
                 'kind_free_text': 'repository-specific static analyser: ast/Cython-tree rules, expression extraction to exact algebra (sympy), literal-table extraction, effect/alias summaries, guard dominance, third-party API compatibility'}],
    'checks': checks,
    'notes': 'Exit 0 = all static obligations hold (known findings printed as KNOWN-FINDING lines); exit 1 = VIOLATION lines; exit 2 = ANALYSIS-ERROR (anchor vanished / construct outside the analyser\'s vocabulary). See DESIGN.md.',
    'not_applicable': [{'property_id': k, 'reason': v} for k, v in sorted(NA.items())],
}
json.dump(m, open(os.path.join(HERE, 'MANIFEST.json'), 'w'), indent=1)
print('claimed', sorted(CLAIMED), 'n/a', sorted(NA))
