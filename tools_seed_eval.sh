#!/bin/bash
# usage: tools_seed_eval.sh <seed root> [prop ...]   applies each <root>/<prop>/<k>/patch.diff to /repo, runs ./check <prop>, reverts.
root=${1:-/verif/seeded}; shift
props=${@:-$(ls $root)}
cd /verif
for p in $props; do
  for d in $root/$p/*/; do
    [ -f $d/patch.diff ] || continue
    if ! git -C /repo diff --quiet; then echo "REPO DIRTY, abort"; exit 3; fi
    if ! git -C /repo apply --check $d/patch.diff 2>/dev/null; then echo "$p $(basename $d) PATCH-DOES-NOT-APPLY"; continue; fi
    git -C /repo apply $d/patch.diff
    prop=$p
    [ -f $d/meta.json ] && prop=$(/venv/bin/python -c "import json;print(json.load(open('$d/meta.json'))['property'])")
    out=$(./check $prop --tier quick 2>&1); rc=$?
    git -C /repo checkout -- .
    echo "$p $(basename $d) rc=$rc $(echo "$out" | grep -c '^VIOLATION') violation(s): $(echo "$out" | grep -v '^VIOLATION' | head -1 | cut -c1-220)"
  done
done
