# edited by hand; tools_gen_manifest.py turns it into MANIFEST.json
_PENDING = 'rules for this property are designed (DESIGN.md section 6) but not yet implemented in this commit; not claimed until they are'
for _i in range(1, 21):
    NA['C%02d' % _i] = _PENDING

def claim(pid, tech, text, ref):
    CLAIMED[pid] = (tech, text, ref)
    NA.pop(pid, None)

claim('C20', "expression extraction with the rate bound to y'=λy and exact polynomial identities; central difference on a generic cubic; default-argument contradiction rule; effect (mutation) analysis; abstract interpretation of ISMPath.step and ISMPath.relax on model paths with recording stubs",
      "Decides necessary structural conditions, not convergence: one integrator step on y'=λy is identically the Taylor polynomial of exp(hλ) to degree 1 / 4; the central difference has no O(1) or O(shift) error and fills slot i with ∂/∂x_i; constructors accept their own defaults; integrators and step() never write to the coordinates they are given; step() advances plain images along -grad E and climbing images along -grad E + 2(grad E·τ)τ, re-spaces each segment evenly keeping its end points, and returns a path with the energy/gradient functions and gradient settings of its operand; relax() takes non-climbing then climbing steps from the path the previous step returned, climbing at the strict interior energy maxima (at most climbpoints), stopping at the tolerance. Convergence to minima/saddle is not decided.", 'DESIGN.md §6 C20')

claim('C19', 'abstract interpretation of Log.read / Log.flatten / lammps.run on analyser-side models (token-line files with a read position, a read_csv model that counts non-blank lines as pandas does, tables with exact Step values, a model file system); third-party API compatibility against installed pandas signatures',
      'Decides structural necessary conditions on the current source, not the parsing of numbers: Log.read, interpreted by the analyser on synthesised logs (both memory banners, blank lines anywhere, timing breakdowns, a final block cut short, with and without version banner), yields one record per run in order with the printed column names and the printed rows, every table read from a rewound stream with blank lines skipped, version/date for the twelve months, first banner wins, append / overwrite sequences; Log.flatten on model tables keeps exactly the rows first/last/all prescribe with their own values; lammps.run reads back every renamed earlier log in numeric order; every pandas call exists with its keywords in the installed pandas. That pandas parses each printed number to the same value is not decided.', 'DESIGN.md §6 C19')

claim('C09', 'symbolic evaluation of reset_units over the base-unit monomial algebra; independent unit grammar with dimension/SI typing of the style tables; extraction of the parse() reduction on symbolic tokens',
      'Decides structural necessary conditions: for all 29 admissible named working-unit choices reset_units, evaluated exactly over the base-unit algebra, leaves each chosen unit equal to one; '
      'all mechanical LAMMPS style entries have the dimension of their key and the SI magnitude LAMMPS documents; get∘set is the identity for one parsed factor; the reduction half of parse() '
      'computes ordinary precedence on every operator pattern up to 4 operators; tokenizer/parenthesis structure; model keys. Floating-point round trips and random seeds are not decided.', 'DESIGN.md §6 C09')

claim('C01', 'expression extraction of Box/Plane methods over symbolic cells + exact polynomial/rational identities; who-may-write, cache-reset, alias/mutation and array-like discipline rules',
      'Decides structural necessary conditions on the current source: the parameter-set chain, all getters, reciprocal duality, the two coordinate conversions (inverse pair, any leading shape, no write to the argument) '
      'and the six-face table of inside()/outside() are proved as exact identities on expressions extracted from the syntax tree; cache invalidation is unconditional and the vectors have two writers. '
      'Rounding bounds and behaviour within rounding of a face are not decided.', 'DESIGN.md §6 C01')

claim('C02', 'scripted-comparison evaluation of the Cython kernels (Cython parse tree lowered to ast) over symbolic positions/cell: fold-minimum over the exact candidate set; abstract interpretation of the wrappers and of System.dvect/dmag on model systems with a recording kernel (several calls on one evaluator); READONLY-FLOW dataflow rule',
      "Decides that the code is the minimum over exactly the 3^k lattice-image candidates of the periodic directions (all 8 settings, both kernels, judged from the .pyx source, not the compiled module), that the scalar distance is the square root of the same minimum, that broadcasting is one-to-many only, that the kernel receives the current vectors of the box of each call (no state carried between calls), that displacement()/System.dvect/dmag pair box and periodicity from the right system and select the system's own positions for index arguments, and that broadcast (read-only) inputs reach only const buffers. The nearest-image theorem for that minimum is mathematics about the candidate set, not decided here.", 'DESIGN.md §6 C02')

claim('C03', "reaching definitions and structural/affine rules on the Cython source of nlist (lowered through Cython's parser); abstract interpretation of the pair-insertion block on small concrete tables and of the dump/load pair on model tables; fold-minimum proof of the distance kernel; READONLY-FLOW dataflow rule",
      "Decides necessary structural conditions from the .pyx source (not the compiled module): swept bins = populated bins, 13-bin half stencil with own-coordinate offsets and six-face skip, bin size/padding >= cutoff, six own-coordinate ghost bounds, strict squared-cutoff membership on the C02 kernel; the pair-insertion block keeps every row the ascending duplicate-free list of an atom's partners through growth; bin growth copies every slot in use; the text NeighborList.dump writes is read back by load to the same lists; no read-only array reaches a writable typed buffer. The pair set of a concrete configuration is not decided.", 'DESIGN.md §6 C03')

claim('C05', 'scripted-comparison evaluation of System.wrap over symbolic scaled positions; abstract interpretation of normalize on a stateful cell model (recording box_set / wrap / lstsq / closeness tests) and of System.box_set through the real System accessors on a model cell and atom table; alias/mutation analysis for copy-on-entry',
      "Decides structural necessary conditions: for all 8 periodicity settings wrap moves atoms by floor(s) whole vectors along periodic directions only, writes positions through the old cell, enlarges both non-periodic bounds independently with vectors×extent and origin+mins·V; normalize copies its input, flips (a,b,-c,origin+c) under (a×b)·c<0 holding absolute positions, rebuilds from the six lattice parameters holding scaled positions, wraps, solves the transformation from the vectors as they were after the flip and before the rebuild, and tests it orthonormal before returning it; box_set(scale=True) leaves every atom at its box-relative position ((x-o)·V⁻¹·V'+o'), scale=False leaves absolute positions, non-boolean scale refused; reciprocal-cache invalidation. Numerical invariance of distances is not decided.", 'DESIGN.md §6 C05')

claim('C06', 'abstract interpretation of PropertyDict.__setitem__, Atoms.__getitem__/__setitem__, Atoms.extend and the System symbols/masses/natypes accessors on model tables; who-may-write rule on the per-atom table; alias/freshness and mutation (effect) analysis of accessors',
      "Decides structural necessary conditions: every insertion into the per-atom table stores exactly natoms rows (scalar / one-row broadcast, anything else refused, types < 1 refused) and nothing else writes the table; copying accessors return fresh storage on every path; extend/atoms_extend/getitem/deepcopy/df/atoms_ix/supersize/rotate do not write to their operands; for every kind of index (integer incl. negative and -1, slice, list, mask) every property is read / written at the same rows and an integer selects a one-row table; Atoms.extend yields receiver rows then appended rows with zeros for missing values; appended scaled positions land in rows [natoms_self:]; symbols and masses are padded with None up to the type count (masses: the system's count incl. extra symbols), more masses refused. Equality with a record-per-atom model over arbitrary histories is not decided.", 'DESIGN.md §6 C06')

claim('C04', 'model evaluation of System.supersize (symbolic positions, tagged property); exact-rational checks of the centering tables; abstract interpretation of rotate() (multipliers on symbolic integer indices; selection mask, tolerance ladder and count gate on a model supercell) and of the conventional→primitive converter on a model supercell with recording stubs; anchoring and effect rules',
      "Decides structural necessary conditions: supersize yields each atom at each lattice translation of the replication box exactly once with its own property row, vectors×m and origin+lo·V; the eight centering table pairs are inverse with determinants (1,2,2,2,2,4,3,3), the converter's multiplier makes the supercell indices integral and its basis positions are the lattice points; the converter resolves the setting (generic t → t1/t2), rotates by multip × the primitive vectors, cuts the cell with vectors / multip on shifted positions, demands exactly natoms/multip³ atoms, undoes the shift; rotate() refuses non-integer/zero-volume input, bounds by (min-1,max+1) over eight corners, keeps [0,1) atoms after rounding onto faces, recomputes the positions for every tolerance, constructs only after the expected-count test, and introduces no net translation; operands are not written. Which atoms a concrete floating-point cell keeps is not decided. One known finding (far-from-zero origin refused).", 'DESIGN.md §6 C04')

claim('C07', 'model evaluation of the three writers over symbolic systems with reconstruction of the written text (skeleton + values) against the published line formats; column tables extracted per atom_style and typed by physical dimension against the LAMMPS reference; data-frame model of the table writers; API-compatibility rule',
      'Decides structural necessary conditions: for all 8 periodicity settings and orthogonal / partly / fully tilted cells the data-file, dump-file and POSCAR writers, evaluated on model systems, emit exactly the documented '
      'lines (counts, bounds from the same-named getters in the requested length unit, tilt line/columns, bounding box by the LAMMPS min/max rule, pp/fm flags, image-flag columns iff a flag is non-zero, Velocities iff present, '
      'scale factor on lattice and Cartesian coordinates, per-type counts and grouping); wrap precedes writing; the snippet names the resolved units/atom_style/boundary flags; per-style column tables equal the LAMMPS reference '
      'with units of each column\'s own quantity from the requested style (also hybrid); table writers output each component divided by its unit, box-relative when scaled, ids 1..N / unique own ids. '
      'That printed decimals equal the values to the printed precision is not decided. One known finding (smd lacks x0 y0 z0).', 'DESIGN.md §6 C07')

claim('C08', 'model evaluation of the four readers on model files (token lines with symbolic numbers, data frames with explicit row order); writer/reader table agreement by evaluation per atom_style; round-trip identity of the bounding-box arithmetic on symbolic cells; refusal paths; API-compatibility rule',
      'Decides structural necessary conditions: writer and reader column tables are equal for every atom_style (incl. hybrid) and the standard dump columns; the data-file first pass returns counts, bounds x length unit, tilts, '
      'masses by type, section offsets, column count, style comment, and refuses each incomplete file with FileFormatError; atom_style resolution; image flags are re-applied per atom id as flags·vects for a file whose atom lines are out of order; '
      'the table reader sorts by id, reshapes in C order, re-applies units / box-relative conversion; the dump-file reader inverts the writer\'s bounding box exactly (orthogonal and tilted, symbolic), reads pp flags (8 settings) and matches columns; '
      'the POSCAR reader applies the scale factor to lattice and Cartesian coordinates, reads the optional symbols line and counts. That parsed decimals equal printed ones is not decided.', 'DESIGN.md §6 C08')

claim('C11', 'evaluation of the ElasticConstants methods on generic symmetric matrices of symbols; exact polynomial / rational identities against the Voigt map, the tensor transformation law, rotation-group invariance per crystal system, the (lambda, mu) definitions of the isotropic moduli and the Voigt/Reuss/Hill formulas',
      'Decides structural necessary conditions: all 81+81 index placements of the 3x3x3x3 and 9x9 forms, the compliance weights (so that stiffness:compliance is the symmetric identity whenever s = c^-1), setter∘getter identities, '
      'the transformation law on all 81 entries and a sign-symmetric clean-up, invariance of every crystal-system constructor (all dependent-constant arms) under the generators of its rotation group, all 15 isotropic modulus pairs, '
      'normalized_as as a fixed point on each system\'s own constants, and the modulus estimates. Positive-definiteness, conditioning of the numerical inverse and tolerance behaviour are not decided.', 'DESIGN.md §6 C11')

claim('C16', 'evaluation of the Miller conversion functions on symbolic indices and cells; exact rational algebra for the plane-normal branch table (all 26 zero/sign patterns) and the centering tables; finite model of the family predicates over equality patterns; sibling agreement with tools/crystalsystem',
      'Decides structural necessary conditions: 3<->4 index maps are mutually inverse for any leading shape, denote the same Cartesian vector, refuse bad shapes/sums and keep a floating-point buffer; for every zero/sign pattern of (hkl) the two in-plane '
      'lattice vectors satisfy the zone law, are integer (lcm covers the divisors) and give a normal along +g; the eight centering table pairs are inverse with the lattice-point determinants; reduce_indices/all_indices/fromstring on model inputs; '
      'each family constructor\'s generic member satisfies its own predicate and is identified as that family by Box and by tools/crystalsystem. Tolerance behaviour near coincident parameters is not decided.', 'DESIGN.md §6 C16')

claim('C10', 'writer∘reader composition evaluated on symbolic values with the real DataModelDict container: unit models of all ranks (incl. non-contiguous views), Box, Atoms, System (scaled storage, partial masses), ElasticConstants; format routing',
      'Decides structural necessary conditions: value_unit∘model is the identity for scalars, vectors and rank 2/3 arrays, also transposed views, with keys value/shape/unit; Box.model round trip restores vectors and origin through the cell setter (cache reset); '
      'Atoms and System models list every property with its unit and the model= constructor branches read them back, box-relative storage being converted with the same box on both sides; periodic flags, symbols and partial masses survive; '
      'ElasticConstants.model round trip; dump/load route format, units and symbols. The third-party JSON/XML encoders and value dtypes after the text round trip are not decided.', 'DESIGN.md §6 C10')

claim('C15', 'model evaluation of the four point-defect generators and the dispatcher on a symbolic 4-atom system with scripted site lookup; comparison of result rows, old_id, defect-atom values, refusals and operand preservation with the documented behaviour',
      'Decides structural necessary conditions: atom counts, surviving atoms unchanged and in order with defect atoms last, old_id created from the index list or carried over (maps compose), defect-atom position/type/property values '
      '(box-relative positions through the box, box-relative dumbbell vector through the cell vectors only), selection by index / negative index / Cartesian / box-relative position agreeing, every documented refusal, input untouched and result built from copies, '
      'dispatcher forwarding. Which atom a numerical distance test selects for a given tolerance is not decided. One defect found and fixed (dumbbell scale=True).', 'DESIGN.md §6 C15')

claim('C12', 'evaluation of the isotropic closed forms in three (m,n,xi) frames with CAS differentiation; evaluation of the Stroh sums on generic symbolic eigen-data as polynomial identities; recording-stub evaluation of the orientation handling and solver dispatch',
      'Decides structural necessary conditions: isotropic strain = symmetric gradient of displacement (nine Cartesian components, three frames), Hooke\'s law, zero divergence, 1/r homogeneity, the theta-coefficient b/2pi (jump = Burgers vector), K tensor, '
      'nu from (K, mu), the theta branch table; for the anisotropic solver strain = sym grad u and stress = C:grad u for arbitrary eigen-data, eta, K = i sum(+-k L L), the sextic matrix blocks, A/L split, normalisation, and the four orthogonality relations '
      'guarding the stored solution (which give jump = b); the Burgers vector and the constants are rotated by the same matrix, four orientation routes, sibling transform function, unit/perpendicular m,n, relative round-off; fallback only on ValueError with identical arguments. '
      'Accuracy of the numerical eigen-solution, positive-definiteness of K and the isotropic limit are not decided. One defect found and fixed (n never checked for unit length).', 'DESIGN.md §6 C12')

claim('C17', 'evaluation of the Cython kernels (read through Cython\'s parser) on symbolic tensors; recording-stub evaluation of solve_G / solve_nye / slip_vector / disregistry / differential displacement on model systems; match_pq on model vector sets',
      'Decides structural necessary conditions: strain/rotation/invariants/angular velocity formulas; Nye tensor curl table, neighbour differences and least-squares gradient wiring; G from Q·G = P over the matched pairs with identity fallback, theta_max in degrees, '
      'all derived caches cleared on every solve and lazily recomputed; nearest-angle matching with theta_max rejection and duplicate resolution; slip vector summed over exactly the atom\'s own neighbours with the reference cell, for unequal coordination; '
      'disregistry taken from the two layers adjoining planepos·n for any plane normal, through the final box; differential displacement for the same (atom, neighbours); displacement box/periodicity pairing. '
      'Numerical recovery of an imposed deformation by least squares over neighbour shells is not decided.', 'DESIGN.md §6 C17')

claim('C14', 'exact rational algebra on the plane-normal table (26 zero/sign patterns) with sibling comparison; guard rules on the candidate searches; recording-stub evaluation of FreeSurface.__init__/surface and of the stacking-fault setters and fault() on model cells',
      'Decides structural necessary conditions: the two starting in-plane lattice vectors obey the zone law, are integer and give a normal along +g, identically to tools/miller; in-plane / shortest / angle-below-90 / right-handed / non-parallel search guards, gcd reduction, cyclic cutboxvector arms; '
      'the cut-axis refusals for each in-plane vector separately, termination shifts exactly midway between consecutive atomic planes (one per plane, along the cut only), surface() ordering supersize -> shift -> wrap -> non-periodic across the cut, vacuum geometry, minwidth/even; '
      'fault-position setters mutually inverse incl. the box origin with one strict mask, fault() on a copy moving exactly the atoms above by a1·a1 + a2·a2 + out·n then wrapping, out-of-plane shift vectors refused by both setters. '
      'That the rotated cell contains the same crystal (System.rotate, C04) and concrete cell geometry are not decided.', 'DESIGN.md §6 C14')

claim('C13', 'evaluation of the orientation table, slip-plane shifts, boundary regions and linear field on symbolic / model inputs; recording-stub evaluation of the monopole and periodic-array generators (operation sequence, arguments, which atoms are touched); refusal guards',
      'Decides structural necessary conditions: the six cell-orientation arms are right-handed arrangements with the line and normal vectors in the named rows; slip-plane shifts exactly midway between atomic planes; monopole = supersize (symmetric, even) -> shift -> wrap -> copy -> '
      'add displacement at (reference position - centre) -> periodic along the line only -> wrap, both systems stored atom for atom, boundary atoms = shape.outside re-typed by +natypes; box/array/cylinder boundary geometry (radius = smallest face distance - width on model cross-sections); '
      'array: b/2 tilt by the sign of b·m, refusals (atoms on the slip plane, non-integer count, found != expected either way), old_id and trimmed reference, linear field odd in n; disregistry through the final box. '
      'The disregistry integral, overlaps in a concrete crystal and the returned rotation are not decided.', 'DESIGN.md §6 C13')

claim('C18', 'evaluation of the gamma-surface conversions on a symbolic non-cubic cell composed to the identity; evaluation of fit() on model sample grids (interpolation nodes vs periodic tiling); E_gsf routing/period reduction/edge blend with a symbolic interpolant; every Peierls-Nabarro energy term on a symbolic profile against its documented formula; recording minimiser for solve(); CAS derivative of the arctangent pair',
      'Decides structural necessary conditions: fractional/Cartesian/plotting conversions are mutual inverses for one and several positions with stored and alternate in-plane vectors; the interpolation nodes contain every sample with its own energy plus one ring of periodic images (rectangular grids either way round); '
      'position routing, reduction by whole periods, blend weights; dislocation densities, misfit/elastic/long-range/stress/non-local/surface terms equal to their formulas for the profile passed in, symmetric elastic kernel, the two stress forms differing only through end values; total = sum of the six with the same arguments; '
      'solve() varies interior x,z only and restores both ends; d/dx disregistry = density, limits 0 -> b. Interpolant accuracy, energy decrease under minimisation and the classical half-width are not decided. One known finding (fullstress with central differences raises).', 'DESIGN.md §6 C18')

# additions of build session 3 (rounds 5-7): kept separate so that the per-property texts above stay readable
_ADD = {
    'C01': ('concrete three-scale interpretation of the cell-vector setter; memory-sharing checks on model objects; API-compatibility scan of every consulted module',
            'Also decided: the setter stores what it is given at scales 1, 1e-10 and 1e+10 (only components tiny relative to the largest are zeroed), resets the reciprocal cache for nearly equal cells, and keeps no reference to the caller\'s arrays.'),
    'C02': ('C-declaration rule (every C floating declaration is double); cell-scale scenarios shared with C01',
            'Also decided: tuple positions and position-then-indices dispatch of System.dvect/dmag; mixed periodicity reaches the kernel unchanged in displacement().'),
    'C03': ('DTYPE-FLOW (element types decided from constructors) for the typed-buffer bindings; C-declaration rule; interpretation of the set-up block on a model system',
            'Also decided: every C floating declaration is double; the cell attributes bound to double buffers are float64 whatever the caller gave the cell.'),
    'C04': ('DTYPE-FLOW for per-atom property buffers; whole-function interpretation of check_setting_basis on a model cell with symbolic origin',
            'Also decided: per-atom properties of rank 1-3 are replicated with their own element type and on the right replicas; centring sites are searched as positions of the cell.'),
    'C05': ('numpy-bool flag scenario; fully populated / nearly equal cells in the cache-reset scenarios', ''),
    'C06': ('model evaluation of System.atoms_extend and System.__init__ (recording constructor, model atom table); effect analysis of the cell converters',
            'Also decided: properties are matched by name in row assignment; symbol and mass lists longer than the atom types are kept by the constructor.'),
    'C07': ('ToleranceLog (every tolerant comparison evaluated in a writer is recorded; a quantity in file units compared with zero is a violation); memoisation lint on the column-table builders; System.wrap rule of C05 shared',
            'Also decided: torque columns are force x length of the style; the conversion table returned by the table writer describes the written columns (scaled columns stay marked).'),
    'C08': ('writer-side rules of C07 shared (header form from exact tilts, returned conversion table, resolvers)', ''),
    'C09': ('fractional exponents in the grammar oracle; effect analysis of the conversion functions; writer/reader evaluation of model()/value_unit()/error_unit(); memoisation lint', ''),
    'C10': ('normalisation rule of C11 and constructor scenarios of C06 shared; memoisation lint on unitconvert', ''),
    'C11': ('concrete scenarios for the symmetry tolerance and the sign-preserving clean-up at two scales; getter freshness by effect analysis; compliance on a concrete fully populated stiffness', ''),
    'C12': ('DTYPE-FLOW for the strain/stress buffers; STATE-OWNER lint (everything the solver objects remember is rewritten by solve()); concrete Burgers clean-up at two scales; stiffness-rotation clean-up shared with C11', ''),
    'C13': ('TOLERANT-INTEGER contradiction lint; Box.planes interpreted with the real Plane class and memory-sharing checks; relative-centre scenario with distinct cells', ''),
    'C14': ('System.wrap rule of C05 shared; minimum_r scenarios with a periodic separation model; periodicity ownership compositional with supersize (effect analysis)', ''),
    'C15': ('the dvect kernel rule of C02 shared; scripted concrete distances for the site search; copies judged by identity and memory sharing', ''),
    'C16': ('DTYPE-FLOW (indices handed to the per-plane arithmetic are default integers; 3<->4 results are float); memoisation lint', ''),
    'C17': ('the dvect kernel rule of C02 shared; clear_properties by evaluation; neighbour-source precedence and deferred-solve scenarios', ''),
    'C18': ('TOLERANT-INTEGER lint on the grid count; GammaSurface.set interpreted whole; tilted-plane plotting coordinates; settings-kept obligations', ''),
    'C19': ('read_csv keyword validation in the model; banner suffixes; flatten leaves stored runs untouched (DataFrame.drop model); hyphenated restart names', ''),
    'C20': ('DTYPE-FLOW for the gradient and tangent buffers; stopping criterion of both relax phases at a non-unit timestep; create_path with a recording constructor', ''),
}
for _pid, (_t, _x) in _ADD.items():
    if _pid in CLAIMED:
        t0, x0, r0 = CLAIMED[_pid]
        CLAIMED[_pid] = (t0 + '; ' + _t, (x0 + ' ' + _x).strip(), r0)

# additions of build session 3, rounds 8-9
_ADD2 = {
    'C03': ('whole-function interpretation of nlist() in exact rational arithmetic on scripted configurations (16 quick / 33 thorough) against a brute-force oracle; unique_rows2 interpreted on model tables',
            'Also decided, for the scripted configurations only: the returned table lists for every atom exactly the atoms whose periodic distance is below the cutoff, ascending, whatever the storage sizes.'),
    'C09': ('path-sensitive ARRAY-LIKE must-analysis on every conversion function', 'Also decided: plain numbers, lists and tuples are converted before ndarray-only attributes are read.'),
    'C10': ('path-sensitive ARRAY-LIKE and NATIVE-VALUES must-analyses on unitconvert.model; the precedence rule of C09 shared',
            'Also decided: a value written without a unit may be a plain number or list; what the writer stores is a plain Python value on every path (numpy scalars are rendered through repr by the XML encoder).'),
    'C18': ('path-sensitive ARRAY-LIKE must-analysis over GammaSurface.py', 'Also decided: positions given as lists or tuples are converted before ndarray-only attributes are read.'),
    'C19': ('model logs with the neighbour statistics after every run and runs without timing breakdown; runs without rows in the flatten model; ordered model paths',
            'Also decided: a timing breakdown is attached to the run that printed it and a run without one has none; flattening keeps the timesteps of the other runs when a run has no rows.'),
    'C20': ('evaluation of the name-to-function setters for every documented name', ''),
    'C07': ('DTYPE-FLOW on the stored periodic flags; recorded reads of the cell in the writer model', 'Also decided: nothing is read from the cell or the atoms before the wrap.'),
    'C15': ('site search on concrete distances with numpy closeness semantics', 'Also decided: the tolerance of the site search is a distance (not its square); two atoms within it are refused.'),
    'C16': ('concrete multi-scale scenario for plane normals', 'Also decided: the unit normal of a plane does not depend on the unit of length of the cell.'),
}
for _pid, (_t, _x) in _ADD2.items():
    if _pid in CLAIMED:
        t0, x0, r0 = CLAIMED[_pid]
        CLAIMED[_pid] = (t0 + '; ' + _t, (x0 + ' ' + _x).strip(), r0)

# round 11
_ADD3 = {
    'C01': ('concrete multi-scale scenarios for the inside test; DTYPE-FLOW on the four cell setters', 'Also decided: inside/outside does not depend on the unit of length; whole-number parameters never give an integer cell array.'),
    'C03': ('build scenarios from growing storage; load from an open stream with a read position', ''),
    'C05': ('generic SHARED-STATE pass (no in-place write into module-level or class-level mutable state)', 'Also decided: one call leaves nothing behind in module-level arrays for the next.'),
    'C06': ('index forms by evaluation (atom 0, boolean lists and tuples)', ''),
    'C14': ('edge planes apart by round-off in exact rationals; four-index planes in the head of the basis search; setter-then-fault chain on concrete atoms', ''),
    'C15': ('site search under other working units', 'Also decided: the default tolerance is a length in working units.'),
    'C16': ('angles of cell vectors at four length scales', 'Also decided: angles do not depend on the unit of length.'),
    'C17': ('per-atom reference vectors as one regular array in the solve_G model', 'Also decided: every atom is solved against its own reference vectors.'),
    'C18': ('evaluation of the SDVPN constructor on a Volterra model with a non-symmetric rational rotation; each energy term under its own finite-difference option; delta() evaluated like E_gsf(); caller arrays compared after the call',
            'Also decided: energy coefficients, Burgers vector and transform enter the [m, n, xi] frame by the same rotation; asking for an energy or separation leaves the coordinates asked about unchanged.'),
    'C19': ('model table with positional access and a cut Step field; directory-aware model file system with four-session restart histories; generic SHARED-STATE pass',
            'Also decided: the list of runs belongs to the object; every restart returns all sessions so far in order wherever the log file lives.'),
    'C20': ('step() under a two-stage model integrator through the real grad_energy; central difference on grid-shaped coordinates; climbing selection with high end images',
            'Also decided: the rate is evaluated at the coordinates the integrator asks about; the gradient keeps the leading axes of the coordinates; end images never climb.'),
}
for _pid, (_t, _x) in _ADD3.items():
    if _pid in CLAIMED:
        t0, x0, r0 = CLAIMED[_pid]
        CLAIMED[_pid] = (t0 + '; ' + _t, (x0 + ' ' + _x).strip(), r0)

# round 12
_ADD4 = {
    'C04': ('normalize() interpreted on a stateful exact model system (rational LAMMPS-form cell under a rational rotation)', ''),
    'C05': ('normalize() interpreted on a stateful exact model system (rational LAMMPS-form cell under a rational rotation, right- and left-handed)',
            'Also decided, on the scripted cells: the new cell is the LAMMPS form of the same lengths and angles, every atom keeps its box-relative coordinates, wrap() runs last on the copy, the returned transformation is a proper rotation taking old vectors onto new.'),
    'C08': ('stream model with a read position handed through the readers', 'Also decided: every pass of the LAMMPS data-file and dump-file readers over an open file-like object starts at its beginning.'),
    'C15': ('site search on a one-atom cell with the real shape of System.dvect results', 'Also decided: a site given by position is found in a cell with a single atom.'),
}
for _pid, (_t, _x) in _ADD4.items():
    if _pid in CLAIMED:
        t0, x0, r0 = CLAIMED[_pid]
        CLAIMED[_pid] = (t0 + '; ' + _t, (x0 + ' ' + _x).strip(), r0)

# round 13
_ADD5 = {
    'C01': ('conversion on concrete sparse cells and tensor-shaped values; right-angle and array-origin scenarios of the cell setters', ''),
    'C02': ('NO-CANCELLATION structural lint on the image-search kernels; third-party API pass over the Cython modules', 'Also decided: the squared lengths the image search compares are sums of squares of the candidate vectors (no cancelling cross terms).'),
    'C03': ('DTYPE-FLOW on the returns of nlist(); the System.neighborlist entry point evaluated with the real constructor', 'Also decided: nlist() returns an integer table on every path; System.neighborlist(model=) loads, System.neighborlist(cutoff=) builds for that system.'),
    'C04': ('volume expression on concrete left-handed sets; cell-ownership (C01) and wrap (C05) rules', ''),
    'C07': ('precedence rule of C09 and cache rule of C01 on the same sources; conversion table kept by the dump-file writer', 'Also decided: the conversion table the dump-file writer returns still marks box-relative columns as scaled.'),
    'C08': ('', 'Also decided: loading a dump file with the conversion table its writer returned reads box-relative columns as box-relative.'),
    'C10': ('conversion rule of C01 on tensor-shaped values; model compared before and after reading; defaults of the writers', 'Also decided: reading leaves the model object as given; the cell is written with a unit of length by default.'),
    'C12': ('POINTWISE structural rule on the field methods', 'Also decided: a field value does not depend on the other positions of the same call.'),
    'C13': ('LENGTH-DEFAULTS evaluation under two sizes of the working length unit', 'Also decided: length defaults of the periodic-array builder are lengths in working units.'),
    'C16': ('index conversions on blocks with two leading axes; reduced index lists by evaluation', ''),
    'C18': ('data-model round trip of the gamma surface by evaluation with interpreted unit functions', 'Also decided: GammaSurface.model written in other units reads back the same cell, vectors, energies and separations.'),
    'C20': ('alias-aware purity of the integrators; recorded argument shapes of the central difference', 'Also decided: the integrators do not write into what the rate function returned; the energy function is only handed coordinates of the shape of coord.'),
}
for _pid, (_t, _x) in _ADD5.items():
    if _pid in CLAIMED:
        t0, x0, r0 = CLAIMED[_pid]
        CLAIMED[_pid] = ((t0 + '; ' + _t) if _t else t0, (x0 + ' ' + _x).strip(), r0)

# round 14
_ADD6 = {
    'C07': ('effect (mutation) analysis of the POSCAR, dump-file and table writers with the system as protected parameter', 'Also decided: writing a file does not write into the system written.'),
    'C10': ('default-unit scenario of Atoms.model through a caller-supplied dictionary', ''),
    'C16': ('refusals of float()/int() on concrete strings raised like Python inside the interpreted parser', ''),
    'C14': ('centering tables of tools/miller in exact rationals (rule of C04/C16) on the same sources', 'Also decided: the conventional-to-primitive tables the surface basis goes through are the inverses of their partners for every conventional_setting.'),
    'C20': ('RATE-TYPE structural rule on the integrators', 'Also decided: nothing inside euler/rungekutta is cast to the element type of the coordinates passed in.'),
}
for _pid, (_t, _x) in _ADD6.items():
    if _pid in CLAIMED:
        t0, x0, r0 = CLAIMED[_pid]
        CLAIMED[_pid] = ((t0 + '; ' + _t) if _t else t0, (x0 + ' ' + _x).strip(), r0)
